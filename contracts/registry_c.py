# coding: utf-8
"""Sidecar contracts for moclo/moclo/registry/base.py (CombinedRegistry) and registry/_utils.py (find_resistance).

A registry's `_data` is a python dict keyed by item id (str): `Array Text -> Item` with -1 for absent.  Items are
integer identities with item_id(i) their `.id`.  C20: a combined registry contains the union of its members'
keys; when two members share an id the first one added wins; lookup of an absent key raises KeyError; len and
iteration are those of the key set."""
from __future__ import annotations

import ast

from pyvc import term as tm
from pyvc.term import INT, BOOL, STR
from pyvc.values import VT, VObj, VNone, NONE, VTuple, VList, VDict, VClass, new_oid
from pyvc.contract import Contract, LoopSpec
from pyvc.models_moclo import MAP, ABSENT, map_arr, abstract_item

BASE = "moclo/moclo/registry/base.py"
UTL = "moclo/moclo/registry/_utils.py"
SEQI = tm.seq_sort(INT)
IDX = tm.arr_sort(STR, INT)


def item_id(i):
    return tm.app("item_id", STR, i)


def mk_combined(ex, st, prefix="D"):
    ex.models.elem_kind = "Item"
    reg = VObj("CombinedRegistry")
    d = VDict(new_oid())
    st.set_inplace(d, "items", {})
    st.set_inplace(d, "arr", VT(tm.V(prefix, MAP)))
    st.set_inplace(reg, "_data", d)
    return reg, d


def inv_data(D):
    """representation invariant: every entry is filed under its own id"""
    s = tm.V("s", STR)
    return tm.forall([s], tm.implies(tm.ne(tm.select(D, s), ABSENT),
                                     tm.and_(tm.eq(item_id(tm.select(D, s)), s), tm.le(0, tm.select(D, s)))))


def union_first_wins(D0, D1, R, upto, idx):
    """D1 = D0 extended by the items R[0..upto) under `first one wins`; idx[s] = position in R of the item filed"""
    s, j = tm.V("s", STR), tm.V("j", INT)
    old = tm.ne(tm.select(D0, s), ABSENT)
    new = tm.select(D1, s)
    k = tm.select(idx, s)
    return tm.forall([s], tm.and_(
        tm.implies(old, tm.eq(new, tm.select(D0, s))),
        tm.implies(tm.and_(tm.not_(old), tm.ne(new, ABSENT)),
                   tm.and_(tm.le(0, k), tm.lt(k, upto), tm.eq(tm.seqnth(R, k), new), tm.eq(item_id(new), s),
                           tm.forall_range(j, 0, k, tm.ne(item_id(tm.seqnth(R, j)), s)))),
        tm.implies(tm.and_(tm.not_(old), tm.eq(new, ABSENT)),
                   tm.forall_range(j, 0, upto, tm.ne(item_id(tm.seqnth(R, j)), s)))))


class AddLoop(LoopSpec):
    kind = ast.For
    def __init__(self, con):
        self.con = con

    def havoc(self, ex, st, ctx, modified):
        st = LoopSpec.havoc(self, ex, st, ctx, modified)
        d = st.get(self.con.reg, "_data")
        st.set_inplace(d, "arr", VT(tm.fresh("D", MAP)))
        st.ghost["idx"] = tm.fresh("idx", IDX)
        return st

    def invariant(self, ex, st, ctx):
        D = map_arr(st, st.get(self.con.reg, "_data"))
        idx = st.ghost.get("idx", tm.constarr(IDX, 0))
        return [("union-of-the-items-seen-so-far-first-wins", union_first_wins(self.con.D0, D, self.con.R, ctx["k"], idx)),
                ("k-in-range", tm.le(ctx["k"], tm.seqlen(self.con.R)))]

    def at_body_start(self, ex, st, ctx):
        st = st.fork()
        st.ghost["D_at_start"] = map_arr(st, st.get(self.con.reg, "_data"))
        return st

    def at_body_end(self, ex, st, ctx):
        st = st.fork()
        key = item_id(tm.seqnth(self.con.R, ctx["k"]))
        before = st.ghost["D_at_start"]
        st.ghost["idx"] = tm.ite(tm.eq(tm.select(before, key), ABSENT), tm.store(st.ghost["idx"], key, ctx["k"]), st.ghost["idx"])
        return st


class AddRegistry(Contract):
    file, qual = BASE, "CombinedRegistry.add_registry"
    props = ("C20",)

    def setup(self, ex, st, variant):
        reg, d = mk_combined(ex, st, "D0")
        self.reg, self.D0, self.R = reg, tm.V("D0", MAP), tm.V("R", SEQI)
        member = VObj("MemberRegistry")
        st.set_inplace(member, "_values", VT(self.R, "list"))
        self.loops = {0: AddLoop(self)}
        return dict(self=reg, registry=member)

    def requires(self, ex, st, a):
        i = tm.V("i", INT)
        return [("items-have-identities", tm.forall_range(i, 0, tm.seqlen(self.R), tm.le(0, tm.seqnth(self.R, i)))),
                ("inv_data", inv_data(self.D0))]

    def ensures(self, ex, pre, st, a, result):
        D = map_arr(st, st.get(a["self"], "_data"))
        idx = st.ghost.get("idx", tm.constarr(IDX, 0))
        return [("union-of-keys-first-one-wins", union_first_wins(self.D0, D, self.R, tm.seqlen(self.R), idx)),
                ("inv_data-preserved", inv_data(D))]

    def result(self, ex, st, a):
        st = st.fork()
        st.set_inplace(st.get(a["self"], "_data"), "arr", VT(tm.fresh("D", MAP)))
        return [(st, NONE)]

    def model_terms(self, ex, st, a):
        return dict(R=self.R)


class Lookup(Contract):
    """__getitem__: KeyError exactly for an absent key; the item found carries the key as its id"""
    file, qual = BASE, "CombinedRegistry.__getitem__"
    props = ("C20",)

    def setup(self, ex, st, variant):
        reg, d = mk_combined(ex, st)
        return dict(self=reg, item=VT(tm.V("key", STR)))

    def requires(self, ex, st, a):
        return [("inv_data", inv_data(map_arr(st, st.get(a["self"], "_data"))))]

    def raises(self, ex, st, a):
        D = map_arr(st, st.get(a["self"], "_data"))
        return [("KeyError", tm.eq(tm.select(D, a["item"].t), ABSENT), None)]

    def ensures(self, ex, pre, st, a, result):
        D = map_arr(pre, pre.get(a["self"], "_data"))
        if not (isinstance(result, VObj) and result.kind == "Item"):
            return [("returns-an-item", tm.FALSE)]
        return [("the-item-filed-under-the-key", tm.eq(st.get(result, "ident").t, tm.select(D, a["item"].t))),
                ("item-carries-the-key-as-its-id", tm.eq(st.get(result, "id").t, a["item"].t))]

    def result(self, ex, st, a):
        st = st.fork()
        return [(st, abstract_item(st, tm.fresh("item", INT)))]

    def model_terms(self, ex, st, a):
        return dict(key=a["item"].t)


class Contains(Contract):
    file, qual = BASE, "CombinedRegistry.__contains__"
    props = ("C20",)

    def setup(self, ex, st, variant):
        reg, d = mk_combined(ex, st)
        return dict(self=reg, item=VT(tm.V("key", STR)))

    def ensures(self, ex, pre, st, a, result):
        D = map_arr(pre, pre.get(a["self"], "_data"))
        return [("membership-is-key-presence", tm.eq(result.t, tm.ne(tm.select(D, a["item"].t), ABSENT)))]

    def result(self, ex, st, a):
        return [(st, VT(tm.fresh("in", BOOL)))]


class Len(Contract):
    file, qual = BASE, "CombinedRegistry.__len__"
    props = ("C20",)

    def setup(self, ex, st, variant):
        reg, d = mk_combined(ex, st)
        return dict(self=reg)

    def ensures(self, ex, pre, st, a, result):
        D = map_arr(pre, pre.get(a["self"], "_data"))
        return [("length-is-the-number-of-keys", tm.eq(result.t, tm.app("card", INT, D)))]

    def result(self, ex, st, a):
        return [(st, VT(tm.fresh("len", INT)))]


class Iter(Contract):
    file, qual = BASE, "CombinedRegistry.__iter__"
    props = ("C20",)

    def setup(self, ex, st, variant):
        reg, d = mk_combined(ex, st)
        return dict(self=reg)

    def ensures(self, ex, pre, st, a, result):
        ok = isinstance(result, VObj) and result.kind == "dict_keyiterator" and st.get(result, "dict") is pre.get(a["self"], "_data")
        return [("iterates-the-key-set-of-the-data-dict", tm.B(ok))]

    def result(self, ex, st, a):
        o = VObj("dict_keyiterator")
        return [(st.set(o, "dict", st.get(a["self"], "_data")), o)]


# ------------------------------------------------------------------------------------------------ find_resistance
class ResLoop(LoopSpec):
    kind, iterates = ast.For, "features"
    def __init__(self, con):
        self.con = con

    def invariant(self, ex, st, ctx):
        j = tm.V("j", INT)
        return [("no-earlier-feature-names-a-cassette",
                 tm.forall_range(j, 0, ctx["k"], tm.eq(tm.app("ncass", INT, tm.seqnth(self.con.F, j)), 0)))]


class FindResistance(Contract):
    """the antibiotic of a feature labelled with exactly one known resistance cassette; RuntimeError only for a record
    that is not unambiguous (no feature names a cassette, several do, or one names several).  The value is always one of the
    table's antibiotics."""
    file, qual = UTL, "find_resistance"
    props = ("C20",)
    exact_raises = False

    def setup(self, ex, st, variant):
        ex.models.elem_kind = "FeatureAbs"
        rec = VObj("RecordAbs")
        self.F = tm.V("F", SEQI)
        st.set_inplace(rec, "features", VT(self.F, "list"))
        st.set_inplace(rec, "id", VT(tm.V("rid", STR)))
        self.loops = {0: ResLoop(self)}
        return dict(record=rec)

    def _first(self, F):
        """(exists a first feature with a non-zero count, its index term)"""
        return None

    def _F(self, st, a):
        f = st.get(a["record"], "features")
        if isinstance(f, VT) and f.t.sort == SEQI:
            return f.t
        return None   # a record whose feature table is not modelled feature by feature (call sites): abstract view

    def raises(self, ex, st, a):
        F = self._F(st, a)
        if F is None:
            return [("RuntimeError", None, None)]
        j, i = tm.V("j", INT), tm.V("i", INT)
        nc = lambda x: tm.app("ncass", INT, tm.seqnth(F, x))
        # C20 asks that an item holds a known resistance; it does not say which feature decides when several name a cassette,
        # nor that such a record must be refused.  What it does need: a record that is *unambiguous* -- exactly one feature names
        # a cassette, and names exactly one -- is not refused.  (One direction only: exact_raises is off.)
        unambiguous = tm.exists_range(i, 0, tm.seqlen(F), tm.and_(tm.eq(nc(i), 1), tm.forall_range(
            j, 0, tm.seqlen(F), tm.or_(tm.eq(j, i), tm.eq(nc(j), 0)))))
        return [("RuntimeError", tm.not_(unambiguous), None)]

    def ensures(self, ex, pre, st, a, result):
        F = self._F(pre, a)
        table = self.table(ex)
        if not isinstance(result, VT):
            return [("returns-a-known-antibiotic", tm.FALSE)]
        known = tm.or_(*[tm.eq(result.t, tm.S(v)) for v in sorted(set(table.values()))])
        if F is None:
            return [("returns-a-known-antibiotic", known)]
        i, j = tm.V("i", INT), tm.V("j", INT)
        nc = lambda x: tm.app("ncass", INT, tm.seqnth(F, x))
        some = tm.exists_range(i, 0, tm.seqlen(F), tm.and_(
            tm.eq(nc(i), 1),
            tm.or_(*[tm.and_(tm.eq(tm.app("cass", STR, tm.seqnth(F, i)), tm.S(k)), tm.eq(result.t, tm.S(v)))
                     for k, v in sorted(table.items())])))
        return [("returns-a-known-antibiotic", known), ("of-a-feature-naming-exactly-one-cassette", some)]

    def table(self, ex):
        import ast
        mi = ex.repo.module(UTL)
        node = mi.assigns["_ANTIBIOTICS"]
        return {k.value: v.value for k, v in zip(node.keys, node.values)}

    def result(self, ex, st, a):
        return [(st, VT(tm.fresh("antibiotic", STR)))]

    def model_terms(self, ex, st, a):
        return dict(F=self._F(st, a))


CONTRACTS = [AddRegistry(), Lookup(), Contains(), Len(), Iter(), FindResistance()]


# ------------------------------------------------------------------------------------------------ FilesystemRegistry
class FsGetItem(Contract):
    """directory-backed lookup by file stem: KeyError exactly when no `<key>.<ext>` is a file (for the listed
    extensions, in order); the item found carries the key as its id.  (What `is a file` means for a key that
    contains a path separator is D-FS; the coherence with iteration is C20.L1.)"""
    file, qual = BASE, "FilesystemRegistry.__getitem__"
    props = ("C20",)
    EXT = ("gb", "gbk")

    def setup(self, ex, st, variant):
        reg = VObj("FilesystemRegistry")
        st.set_inplace(reg, "fs", VObj("FSAbs"))
        st.set_inplace(reg, "_extensions", VTuple([VT(tm.S(e)) for e in self.EXT]))
        base = ex.models.sym_class("AbstractPart", tm.V("base", INT))
        st.set_inplace(reg, "base", base)
        ex.models.init_cache(st)
        return dict(self=reg, item=VT(tm.V("key", STR)))

    def candidates(self, key):
        return [tm.concat(key, ".", e) for e in self.EXT]

    def raises(self, ex, st, a):
        key = a["item"].t
        cands = self.candidates(key)
        # absent key = a key the iteration does not yield: no `<key>.<ext>` is a file *of the root directory*
        # (D-FS: filterdir('/') lists root-level files only; a root-level path has no separator)
        nofile = tm.and_(*[tm.not_(tm.and_(tm.app("fs_isfile", BOOL, c), tm.not_(tm.contains(c, "/")))) for c in cands])
        return [("KeyError", nofile, None),
                # content errors of the first existing candidate (outside C20's quantifier: typed GenBank plasmids)
                ("ValueError", None, None), ("RuntimeError", None, None)]

    def assumes(self, ex, st, a):
        # D-FS: splitext(x + '.' + e) = (x, '.' + e) for the listed extensions
        key = a["item"].t
        return [tm.eq(tm.app("path_stem", STR, c), key) for c in self.candidates(key)]

    def ensures(self, ex, pre, st, a, result):
        if not (isinstance(result, VObj) and result.kind == "Item"):
            return [("returns-an-item", tm.FALSE)]
        rec_id = st.get(result, "id")
        out = [("item-carries-the-key-as-its-id", tm.eq(rec_id.t, a["item"].t) if isinstance(rec_id, VT) else tm.FALSE)]
        ent = st.get(result, "entity")
        rec = st.get(ent, "record") if isinstance(ent, VObj) else None
        rid = st.get(rec, "id") if isinstance(rec, VObj) else None
        if ent is not None:
            # "... holds a circular record with that id": the record the entity wraps, not only the item's own field
            out.append(("record-of-the-item-carries-the-key-as-its-id", tm.eq(rid.t, a["item"].t) if isinstance(rid, VT) else tm.FALSE))
            out.append(("record-of-the-item-is-circular", tm.B(isinstance(rec, VObj) and rec.kind == "CircularRecord")))
        return out

    def result(self, ex, st, a):
        st = st.fork()
        return [(st, abstract_item(st, tm.fresh("item", INT)))]

    def model_terms(self, ex, st, a):
        return dict(key=a["item"].t)


CONTRACTS.append(FsGetItem())


# ------------------------------------------------------------------------------------------------ directory iteration
# FilesystemRegistry.__iter__ / __len__ (generator over the directory listing).  Listing F = the entries
# filterdir('/') yields for the patterns built from self._extensions (D-FS: listing_facts); stem(e) = the file
# stem of entry e.  Ghost state of the loop, all in witness form (no existential in an invariant):
#   Y    the sequence yielded so far                       seen   the characteristic function of the set `seen`
#   W1   for a seen stem s: an index into Y with Y[W1[s]] = s
#   W2   for an index i of Y: an index j < k into F with stem(F[j]) = Y[i]
from pyvc.models_moclo import fs_listing, fname, listing_facts, STRSET  # noqa: E402

W1S = tm.arr_sort(STR, INT)
W2S = tm.arr_sort(INT, INT)
SEQS = tm.seq_sort(STR)


def stem_of(e):
    return tm.app("path_stem", STR, fname(e))


def exact_ext(e, exts):
    """the entry's extension is, letter for letter, one of the registry's (what the lookup can find)"""
    return tm.or_(*[tm.eq(tm.app("path_ext", STR, fname(e)), tm.S("." + x)) for x in exts])


def _the_set(st):
    """the set the loop fills (whatever the local is called)"""
    sets = [v for v in st.env.values() if isinstance(v, VObj) and v.kind == "PySet"]
    return sets[0] if len(sets) == 1 else None


class DirLoop(LoopSpec):
    kind, iterates = ast.For, "filterdir"
    def __init__(self, con):
        self.con = con

    def havoc(self, ex, st, ctx, modified):
        st = LoopSpec.havoc(self, ex, st, ctx, {m for m in modified if not (isinstance(st.env.get(m), VObj) and st.env[m].kind == "PySet")})
        ps = _the_set(st)
        if ps is None:
            from pyvc.symex import Unsupported
            raise Unsupported("directory loop: no single set of seen stems")
        st.set_inplace(ps, "arr", VT(tm.fresh("seen", STRSET)))
        st.ghost["yielded"] = tm.fresh("Y", SEQS)
        st.ghost["W1"] = tm.fresh("W1", W1S)
        st.ghost["W2"] = tm.fresh("W2", W2S)
        return st

    def invariant(self, ex, st, ctx):
        ps = _the_set(st)
        if ps is None or "yielded" not in st.ghost:
            from pyvc.symex import Unsupported
            raise Unsupported("directory loop: ghost state missing")
        F = self.con.F
        k = ctx["k"]
        seen = st.get(ps, "arr").t
        Y = st.ghost["yielded"]
        W1 = st.ghost.get("W1", tm.constarr(W1S, 0))
        W2 = st.ghost.get("W2", tm.constarr(W2S, 0))
        s, i, j = tm.V("s", STR), tm.V("i", INT), tm.V("j", INT)
        n = tm.seqlen(Y)
        return [
            ("seen-stems-are-yielded", tm.forall([s], tm.implies(tm.select(seen, s), tm.and_(
                tm.le(0, tm.select(W1, s)), tm.lt(tm.select(W1, s), n), tm.eq(tm.seqnth(Y, tm.select(W1, s)), s))))),
            ("yielded-keys-are-seen-at-their-own-position", tm.forall_range(i, 0, n, tm.and_(
                tm.select(seen, tm.seqnth(Y, i)), tm.eq(tm.select(W1, tm.seqnth(Y, i)), i)))),
            ("yielded-keys-are-stems-of-processed-entries", tm.forall_range(i, 0, n, tm.and_(
                tm.le(0, tm.select(W2, i)), tm.lt(tm.select(W2, i), k), exact_ext(tm.seqnth(F, tm.select(W2, i)), self.con.EXT),
                tm.eq(stem_of(tm.seqnth(F, tm.select(W2, i))), tm.seqnth(Y, i))))),
            ("stems-of-processed-entries-are-seen", tm.forall_range(j, 0, k, tm.implies(
                exact_ext(tm.seqnth(F, j), self.con.EXT), tm.select(seen, stem_of(tm.seqnth(F, j)))))),
            ("k-in-range", tm.le(k, tm.seqlen(F))),
        ]

    def at_body_start(self, ex, st, ctx):
        st = st.fork()
        st.ghost["Y_at_start"] = st.ghost["yielded"]
        return st

    def at_body_end(self, ex, st, ctx):
        st = st.fork()
        Y0, Y1 = st.ghost["Y_at_start"], st.ghost["yielded"]
        if Y1 is not Y0 and Y1.op == "seq.++" and len(Y1.args) == 2 and Y1.args[0] is Y0 and Y1.args[1].op == "seq.unit":
            key = Y1.args[1].args[0]
            st.ghost["W1"] = tm.store(st.ghost["W1"], key, tm.seqlen(Y0))
            st.ghost["W2"] = tm.store(st.ghost["W2"], tm.seqlen(Y0), ctx["k"])
        return st

    def hints(self, ex, st, ctx):
        Y1 = st.ghost["yielded"]
        out = []
        # the extension of the entry at hand: `ext[1:] in extensions` is `ext` being '.' + one of them (instances of the aux
        # lemma ext-tail, a fact of the theory of strings)
        for idx in (ctx["k"], tm.sub(ctx["k"], 1)):        # (the counter has advanced when the invariant is re-established)
            x = tm.app("path_ext", STR, fname(tm.seqnth(self.con.F, idx)))
            out += [tm.implies(tm.eq(x, tm.S("." + e_)), tm.eq(tm.pyslice(x, 1, None), tm.S(e_))) for e_ in self.con.EXT]
        if Y1.op == "seq.++" and len(Y1.args) == 2 and Y1.args[1].op == "seq.unit":
            P, e = Y1.args[0], Y1.args[1].args[0]
            t = tm.V("t", INT)
            out.append(tm.and_(tm.forall_range(t, 0, tm.seqlen(P), tm.eq(tm.seqnth(Y1, t), tm.seqnth(P, t))),
                               tm.eq(tm.seqnth(Y1, tm.seqlen(P)), e), tm.eq(tm.seqlen(Y1), tm.add(tm.seqlen(P), 1))))
        return out


def iter_post(F, Y, W1, W2, exts=("gb", "gbk")):
    """what iteration guarantees about the sequence Y of keys it yields, in witness form (files listed with an extension
    that matches only up to letter case are passed over: the lookup could not find them)"""
    i, j, a, b = tm.V("i", INT), tm.V("j", INT), tm.V("a", INT), tm.V("b", INT)
    n = tm.seqlen(Y)
    return [
        ("yields-each-key-once", tm.forall([a, b], tm.implies(tm.and_(tm.le(0, a), tm.lt(a, b), tm.lt(b, n)),
                                                            tm.ne(tm.seqnth(Y, a), tm.seqnth(Y, b))))),
        ("every-listed-file-contributes-its-stem", tm.forall_range(j, 0, tm.seqlen(F), tm.implies(exact_ext(tm.seqnth(F, j), exts), tm.and_(
            tm.le(0, tm.select(W1, stem_of(tm.seqnth(F, j)))), tm.lt(tm.select(W1, stem_of(tm.seqnth(F, j))), n),
            tm.eq(tm.seqnth(Y, tm.select(W1, stem_of(tm.seqnth(F, j)))), stem_of(tm.seqnth(F, j))))))),
        ("every-key-is-the-stem-of-a-listed-file", tm.forall_range(i, 0, n, tm.and_(
            tm.le(0, tm.select(W2, i)), tm.lt(tm.select(W2, i), tm.seqlen(F)), exact_ext(tm.seqnth(F, tm.select(W2, i)), exts),
            tm.eq(stem_of(tm.seqnth(F, tm.select(W2, i))), tm.seqnth(Y, i))))),
    ]


class FsIter(Contract):
    """iteration over a directory registry yields, once each, the stems of the root-level files with a supported extension"""
    file, qual = BASE, "FilesystemRegistry.__iter__"
    props = ("C20",)
    EXT = ("gb", "gbk")

    def setup(self, ex, st, variant):
        reg = VObj("FilesystemRegistry")
        st.set_inplace(reg, "fs", VObj("FSAbs"))
        st.set_inplace(reg, "_extensions", VTuple([VT(tm.S(e)) for e in self.EXT]))
        self.F = fs_listing(list(self.EXT))
        self.loops = {0: DirLoop(self)}
        return dict(self=reg)

    def ensures(self, ex, pre, st, a, result):
        if not (isinstance(result, VT) and result.t.sort == SEQS):
            return [("yields-strings", tm.FALSE)]
        if st.ghost.get("last_iter") is result.t:
            return []        # call site: result() has assumed the clauses for fresh witnesses
        if "W1" not in st.ghost:
            return [("ghost-witnesses-recorded", None)]
        return iter_post(self.F, result.t, st.ghost["W1"], st.ghost["W2"])

    def aux_lemmas(self, ex):
        from pyvc.solve import Obligation
        P, e, t = tm.V("P", SEQS), tm.V("e", STR), tm.V("t", INT)
        Pe = tm.seqcat(P, tm.sequnit(e))
        x = tm.V("x", STR)
        return [Obligation("seqs-snoc", [tm.le(0, t), tm.lt(t, tm.seqlen(P))],
                           tm.and_(tm.eq(tm.seqnth(Pe, t), tm.seqnth(P, t)), tm.eq(tm.seqnth(Pe, tm.seqlen(P)), e),
                                   tm.eq(tm.seqlen(Pe), tm.add(tm.seqlen(P), 1))),
                           kind="B", text="nth(P ++ [e], t) = nth(P, t) for t < |P|, nth(P ++ [e], |P|) = e, |P ++ [e]| = |P| + 1"),
                Obligation("ext-tail", [], tm.and_(*[tm.implies(tm.eq(x, tm.S("." + e_)), tm.eq(tm.pyslice(x, 1, None), tm.S(e_))) for e_ in ("gb", "gbk", "genbank")]),
                           kind="B", text="x = '.' + e  =>  x[1:] = e")]

    def result(self, ex, st, a):
        st = st.fork()
        exts = [tm.cval(x.t) for x in st.get(a["self"], "_extensions").items]
        F = fs_listing(exts)
        Y, W1, W2 = tm.fresh("keys", SEQS), tm.fresh("W1", W1S), tm.fresh("W2", W2S)
        st = st.assume(*listing_facts(F, exts)).assume(*[t for (_, t) in iter_post(F, Y, W1, W2)])
        st.ghost["last_iter"] = Y
        return [(st, VT(Y, "list"))]


class FsLen(Contract):
    """len(registry) is the number of keys iteration yields"""
    file, qual = BASE, "FilesystemRegistry.__len__"
    props = ("C20",)
    EXT = FsIter.EXT

    def setup(self, ex, st, variant):
        reg = VObj("FilesystemRegistry")
        st.set_inplace(reg, "fs", VObj("FSAbs"))
        st.set_inplace(reg, "_extensions", VTuple([VT(tm.S(e)) for e in self.EXT]))
        return dict(self=reg)

    def ensures(self, ex, pre, st, a, result):
        Y = st.ghost.get("last_iter")
        if Y is None or not isinstance(result, VT):
            return [("counts-what-iteration-yields", tm.FALSE)]
        return [("length-is-the-number-of-keys-iterated", tm.eq(result.t, tm.seqlen(Y)))]

    def result(self, ex, st, a):
        return [(st, VT(tm.fresh("len", INT)))]


CONTRACTS += [FsIter(), FsLen()]


# ------------------------------------------------------------------------------------------------ EmbeddedRegistry
# The archive of an embedded registry is a constant of the installed package (D-TAR): T = tar_listing(_file), member e
# with name tar_name(e) holding one record with id tar_recid(e).  `_data` files every member under its RECORD ID,
# `__iter__` yields MEMBER NAMES and `__len__` counts members: the three agree exactly for well-formed archives
# (AW: names pairwise distinct, name = record id) -- lemmas C20.L3*, AW itself being evaluated on the shipped archives.
from pyvc.models_moclo import tar_listing, tar_name, tar_recid, TARSEQ  # noqa: E402

ITEMFN = dict(recid=("item_recid", STR), res=("item_res", STR), circ=("item_circ", BOOL), entrec=("item_wraps", BOOL))


def item_recid(i):
    return tm.app("item_recid", STR, i)


def known_res(ex, t):
    table = FindResistance().table(ex)
    return tm.or_(*[tm.eq(t, tm.S(v)) for v in sorted(set(table.values()))])


def mk_embedded(st):
    reg = VObj("EmbeddedRegistry")
    st.set_inplace(reg, "_file", VT(tm.V("file", STR)))
    st.set_inplace(reg, "_module", VT(tm.V("module", STR)))
    return reg


def emb_listing(st, reg):
    return tar_listing(st.get(reg, "_file").t)


def data_post(ex, D, T, W, upto):
    """what the data mapping is, given the members T[0..upto) processed (witness W: which member a key comes from)"""
    s, j = tm.V("s", STR), tm.V("j", INT)
    present = tm.ne(tm.select(D, s), ABSENT)
    it = tm.select(D, s)
    return [
        ("every-entry-is-filed-under-its-own-id", inv_data(D)),
        ("every-member-record-id-is-a-key", tm.forall_range(j, 0, upto, tm.ne(tm.select(D, tar_recid(tm.seqnth(T, j))), ABSENT))),
        ("every-key-is-the-record-id-of-a-member", tm.forall([s], tm.implies(present, tm.and_(
            tm.le(0, tm.select(W, s)), tm.lt(tm.select(W, s), upto), tm.eq(tar_recid(tm.seqnth(T, tm.select(W, s))), s))))),
        ("every-item-holds-a-circular-record-with-the-key-as-id-and-a-known-resistance", tm.forall([s], tm.implies(present, tm.and_(
            tm.eq(item_recid(it), s), tm.app("item_circ", BOOL, it), tm.app("item_wraps", BOOL, it),
            known_res(ex, tm.app("item_res", STR, it)))))),
    ]


class TarLoop(LoopSpec):
    kind, iterates = ast.For, "next"

    def __init__(self, con):
        self.con = con

    def _dict(self, st):
        ds = [v for v in st.env.values() if isinstance(v, VDict)]
        if len(ds) != 1:
            from pyvc.symex import Unsupported
            raise Unsupported("archive loop: no single dict being filled")
        return ds[0]

    def havoc(self, ex, st, ctx, modified):
        st = LoopSpec.havoc(self, ex, st, ctx, {m for m in modified if not isinstance(st.env.get(m), VDict)})
        d = self._dict(st)
        st.set_inplace(d, "arr", VT(tm.fresh("D", MAP)))
        st.ghost["W"] = tm.fresh("W", IDX)
        return st

    def invariant(self, ex, st, ctx):
        d = self._dict(st)
        D = map_arr(st, d)
        W = st.ghost.get("W", tm.constarr(IDX, 0))
        return data_post(ex, D, self.con.T, W, ctx["k"]) + [("k-in-range", tm.le(ctx["k"], tm.seqlen(self.con.T)))]

    def at_body_end(self, ex, st, ctx):
        st = st.fork()
        st.ghost["W"] = tm.store(st.ghost.get("W", tm.constarr(IDX, 0)), tar_recid(tm.seqnth(self.con.T, ctx["k"])), ctx["k"])
        return st


CONTENT_ERRORS = [("ValueError", None, None), ("RuntimeError", None, None), ("KeyError", None, None), ("StopIteration", None, None)]


class EmbData(Contract):
    """the mapping an embedded registry looks items up in: one entry per member record id, each filed under its own id,
    holding a circular record with that id and a known resistance (content errors of the archive -- a member that is
    not one circular GenBank record of a known type and resistance -- surface as ValueError / RuntimeError / KeyError)"""
    file, qual = BASE, "EmbeddedRegistry._data"
    props = ("C20",)

    def setup(self, ex, st, variant):
        reg = mk_embedded(st)
        self.T = emb_listing(st, reg)
        self.loops = {0: TarLoop(self)}
        return dict(self=reg)

    def raises(self, ex, st, a):
        return list(CONTENT_ERRORS)

    def ensures(self, ex, pre, st, a, result):
        if not isinstance(result, VDict):
            return [("returns-a-dict", None)]
        if st.ghost.get("last_data") is result:
            return []          # call site: result() has assumed the clauses for a fresh witness
        T = emb_listing(pre, a["self"])
        return data_post(ex, map_arr(st, result), T, st.ghost.get("W", tm.constarr(IDX, 0)), tm.seqlen(T))

    def result(self, ex, st, a):
        st = st.fork()
        d = VDict(new_oid())
        st.set_inplace(d, "items", {})
        D, W = tm.fresh("D", MAP), tm.fresh("W", IDX)
        st.set_inplace(d, "arr", VT(D))
        T = emb_listing(st, a["self"])
        st = st.assume(*[t for (_, t) in data_post(ex, D, T, W, tm.seqlen(T))])
        st.ghost["last_data"] = d
        st.ghost["W"] = W
        ex.models.elem_kind = "Item"
        return [(st, d)]


class LoadEntity(Contract):
    """the abstract hook: returns an entity wrapping the very record it was given (verified for the bundled
    registries as C20.H* -- shape of the real `_load_entity` bodies plus the class tables), or a content error"""
    file, qual = BASE, "EmbeddedRegistry._load_entity"
    props = ("C20",)
    trusted_body = True      # abstract in the base class: `return NotImplemented`

    def setup(self, ex, st, variant):
        return dict(self=mk_embedded(st), record=ex.models.sym_record(st, "CircularRecord", "rec"))

    def raises(self, ex, st, a):
        return list(CONTENT_ERRORS)

    def ensures(self, ex, pre, st, a, result):
        return [("wraps-the-record-given", tm.B(isinstance(result, VObj) and st.get(result, "record") is a["record"]))]

    def result(self, ex, st, a):
        st = st.fork()
        e = VObj("AbstractModule")
        st.set_inplace(e, "record", a["record"])
        st.set_inplace(e, "ident", VT(tm.fresh("entity", INT)))
        return [(st, e)]


class LoadName(Contract):
    file, qual = BASE, "EmbeddedRegistry._load_name"
    props = ("C20",)

    def setup(self, ex, st, variant):
        return dict(self=mk_embedded(st), record=ex.models.sym_record(st, "CircularRecord", "rec"))

    def ensures(self, ex, pre, st, a, result):
        return [("the-record-name", tm.eq(result.t, pre.get(a["record"], "name").t) if isinstance(result, VT) else tm.FALSE)]

    def result(self, ex, st, a):
        return [(st, st.get(a["record"], "name"))]


class LoadResistance(Contract):
    file, qual = BASE, "EmbeddedRegistry._load_resistance"
    props = ("C20",)

    def setup(self, ex, st, variant):
        return dict(self=mk_embedded(st), record=ex.models.sym_record(st, "CircularRecord", "rec"))

    def raises(self, ex, st, a):
        return [("RuntimeError", None, None)]

    def ensures(self, ex, pre, st, a, result):
        return [("a-known-antibiotic", known_res(ex, result.t) if isinstance(result, VT) else tm.FALSE)]

    def result(self, ex, st, a):
        return [(st, VT(tm.fresh("antibiotic", STR)))]


def _emb_with_data(ex, st, variant):
    """registry whose data mapping was computed before (`cached`) or not yet (`first-use`: `_data` runs, by contract)"""
    reg = mk_embedded(st)
    if variant == "cached":
        d = VDict(new_oid())
        st.set_inplace(d, "items", {})
        st.set_inplace(d, "arr", VT(tm.V("D", MAP)))
        st.set_inplace(reg, "__cache__EmbeddedRegistry._data", d)
        ex.models.elem_kind = "Item"
    return reg


class EmbGetItem(Contract):
    """lookup in the data mapping: KeyError exactly for a key the mapping does not hold; the item filed under the key"""
    file, qual = BASE, "EmbeddedRegistry.__getitem__"
    props = ("C20",)
    variants = ("cached", "first-use")

    def setup(self, ex, st, variant):
        self.variant = variant
        return dict(self=_emb_with_data(ex, st, variant), item=VT(tm.V("key", STR)))

    def _D(self, st, a):
        d = st.get(a["self"], "__cache__EmbeddedRegistry._data")
        return map_arr(st, d) if d is not None else None

    def requires(self, ex, st, a):
        D = self._D(st, a)
        return [("inv_data", inv_data(D))] if D is not None else []

    def raises(self, ex, st, a):
        D = self._D(st, a)
        if D is None:
            return [("KeyError", None, None)] + [c for c in CONTENT_ERRORS if c[0] != "KeyError"]
        return [("KeyError", tm.eq(tm.select(D, a["item"].t), ABSENT), None)]

    def ensures(self, ex, pre, st, a, result):
        if not (isinstance(result, VObj) and result.kind == "Item"):
            return [("returns-an-item", tm.FALSE)]
        D = self._D(st, a)        # after the call the mapping is cached in both variants
        if D is None:
            return [("data-mapping-kept", None)]
        return [("the-item-filed-under-the-key", tm.eq(st.get(result, "ident").t, tm.select(D, a["item"].t))),
                ("item-carries-the-key-as-its-id", tm.eq(st.get(result, "id").t, a["item"].t))]

    def result(self, ex, st, a):
        st = st.fork()
        return [(st, abstract_item(st, tm.fresh("item", INT)))]

    def model_terms(self, ex, st, a):
        return dict(key=a["item"].t)


class NameLoop(LoopSpec):
    """`for entry in iter(tar.next, None): yield entry.name` (the explicit form of the generator expression)"""
    kind, iterates = ast.For, "next"

    def __init__(self, con):
        self.con = con

    def havoc(self, ex, st, ctx, modified):
        st = LoopSpec.havoc(self, ex, st, ctx, modified)
        st.ghost["yielded"] = tm.fresh("Y", SEQS)
        return st

    def invariant(self, ex, st, ctx):
        if "yielded" not in st.ghost:
            from pyvc.symex import Unsupported
            raise Unsupported("name loop outside a generator")
        Y, T, j = st.ghost["yielded"], self.con.T, tm.V("j", INT)
        return [("one-key-per-member-so-far", tm.eq(tm.seqlen(Y), ctx["k"])),
                ("the-member-names-so-far", tm.forall_range(j, 0, ctx["k"], tm.eq(tm.seqnth(Y, j), tar_name(tm.seqnth(T, j))))),
                ("k-in-range", tm.and_(tm.le(0, ctx["k"]), tm.le(ctx["k"], tm.seqlen(T))))]

    def hints(self, ex, st, ctx):
        Y1 = st.ghost["yielded"]
        if Y1.op == "seq.++" and len(Y1.args) == 2 and Y1.args[1].op == "seq.unit":
            P, e = Y1.args[0], Y1.args[1].args[0]
            t = tm.V("t", INT)
            return [tm.and_(tm.forall_range(t, 0, tm.seqlen(P), tm.eq(tm.seqnth(Y1, t), tm.seqnth(P, t))),
                            tm.eq(tm.seqnth(Y1, tm.seqlen(P)), e), tm.eq(tm.seqlen(Y1), tm.add(tm.seqlen(P), 1)))]
        return []


class EmbIter(Contract):
    """iteration yields the member names of the archive, in archive order"""
    file, qual = BASE, "EmbeddedRegistry.__iter__"
    props = ("C20",)

    def setup(self, ex, st, variant):
        reg = mk_embedded(st)
        self.T = emb_listing(st, reg)
        self.loops = {0: NameLoop(self)}
        return dict(self=reg)

    aux_lemmas = FsIter.aux_lemmas

    def ensures(self, ex, pre, st, a, result):
        if not (isinstance(result, VT) and result.t.sort == SEQS):
            return [("yields-strings", tm.FALSE)]
        T = emb_listing(pre, a["self"])
        j = tm.V("j", INT)
        return [("one-key-per-member", tm.eq(tm.seqlen(result.t), tm.seqlen(T))),
                ("the-member-names-in-order", tm.forall_range(j, 0, tm.seqlen(T), tm.eq(tm.seqnth(result.t, j), tar_name(tm.seqnth(T, j)))))]

    def result(self, ex, st, a):
        Y = tm.fresh("keys", SEQS)
        return [(st, VT(Y, "list"))]


class EmbLen(Contract):
    file, qual = BASE, "EmbeddedRegistry.__len__"
    props = ("C20",)

    def setup(self, ex, st, variant):
        return dict(self=mk_embedded(st))

    def ensures(self, ex, pre, st, a, result):
        return [("the-number-of-members", tm.eq(result.t, tm.seqlen(emb_listing(pre, a["self"]))) if isinstance(result, VT) else tm.FALSE)]

    def result(self, ex, st, a):
        return [(st, VT(tm.fresh("len", INT)))]


class EmbEq(Contract):
    """two embedded registries are equal iff they read the same archive; nothing else equals one"""
    file, qual = BASE, "EmbeddedRegistry.__eq__"
    props = ("C20",)
    variants = ("other-embedded", "other-combined")

    def setup(self, ex, st, variant):
        reg = mk_embedded(st)
        if variant == "other-embedded":
            other = VObj("EmbeddedRegistry")
            st.set_inplace(other, "_file", VT(tm.V("file2", STR)))
        else:
            other, _ = mk_combined(ex, st)
        return dict(self=reg, other=other)

    def ensures(self, ex, pre, st, a, result):
        if not isinstance(result, VT) or result.t.sort != BOOL:
            return [("returns-a-bool", tm.FALSE)]
        if a["other"].kind == "EmbeddedRegistry":
            return [("same-archive", tm.eq(result.t, tm.eq(pre.get(a["self"], "_file").t, pre.get(a["other"], "_file").t)))]
        return [("not-equal-to-another-kind", tm.eq(result.t, tm.FALSE))]

    def result(self, ex, st, a):
        return [(st, VT(tm.fresh("eq", BOOL)))]


class EmbHash(Contract):
    """hash is a function of the archive name (equal registries hash equally)"""
    file, qual = BASE, "EmbeddedRegistry.__hash__"
    props = ("C20",)

    def setup(self, ex, st, variant):
        return dict(self=mk_embedded(st))

    def ensures(self, ex, pre, st, a, result):
        return [("a-function-of-the-archive-name", tm.eq(result.t, tm.app("py_hash:EmbeddedRegistry", INT, pre.get(a["self"], "_file").t))
                 if isinstance(result, VT) else tm.FALSE)]

    def result(self, ex, st, a):
        return [(st, VT(tm.app("py_hash:EmbeddedRegistry", INT, st.get(a["self"], "_file").t)))]


CONTRACTS += [EmbData(), LoadEntity(), LoadName(), LoadResistance(), EmbGetItem(), EmbIter(), EmbLen(), EmbEq(), EmbHash()]


# ------------------------------------------------------------------------------------------------ small members
class CombinedInit(Contract):
    """a new combined registry is empty"""
    file, qual = BASE, "CombinedRegistry.__init__"
    props = ("C20",)
    inline_at_call_sites = True

    def setup(self, ex, st, variant):
        return dict(self=VObj("CombinedRegistry"))

    def ensures(self, ex, pre, st, a, result):
        d = st.get(a["self"], "_data")
        if not isinstance(d, VDict):
            return [("has-a-data-dict", None)]
        D = map_arr(st, d)
        s = tm.V("s", STR)
        return [("holds-nothing", tm.forall([s], tm.eq(tm.select(D, s), ABSENT))), ("inv_data", inv_data(D))]

    def result(self, ex, st, a):
        return [(st, NONE)]


class CombinedLShift(Contract):
    """`combined << registry` adds the registry (contract of add_registry) and evaluates to the combined registry"""
    file, qual = BASE, "CombinedRegistry.__lshift__"
    props = ("C20",)

    def setup(self, ex, st, variant):
        reg, d = mk_combined(ex, st, "D0")
        self.D0, self.R = tm.V("D0", MAP), tm.V("R", SEQI)
        member = VObj("MemberRegistry")
        st.set_inplace(member, "_values", VT(self.R, "list"))
        return dict(self=reg, registry=member)

    def requires(self, ex, st, a):
        i = tm.V("i", INT)
        return [("items-have-identities", tm.forall_range(i, 0, tm.seqlen(self.R), tm.le(0, tm.seqnth(self.R, i)))),
                ("inv_data", inv_data(self.D0))]

    def ensures(self, ex, pre, st, a, result):
        D = map_arr(st, st.get(a["self"], "_data"))
        idx = st.ghost.get("idx", tm.constarr(IDX, 0))
        return [("evaluates-to-the-combined-registry", tm.B(result is a["self"])),
                ("union-of-keys-first-one-wins", union_first_wins(self.D0, D, self.R, tm.seqlen(self.R), idx)),
                ("inv_data-preserved", inv_data(D))]

    def result(self, ex, st, a):
        st = st.fork()
        st.set_inplace(st.get(a["self"], "_data"), "arr", VT(tm.fresh("D", MAP)))
        return [(st, a["self"])]


class ItemRecord(Contract):
    """item.record is the record of the item's entity"""
    file, qual = BASE, "Item.record"
    props = ("C20",)
    inline_at_call_sites = True

    def setup(self, ex, st, variant):
        it = VObj("Item")
        ent = VObj("AbstractModule")
        rec = ex.models.sym_record(st, "CircularRecord", "rec")
        st.set_inplace(ent, "record", rec)
        st.set_inplace(it, "entity", ent)
        self.rec = rec
        return dict(self=it)

    def ensures(self, ex, pre, st, a, result):
        return [("the-record-of-the-entity", tm.B(result is self.rec))]

    def result(self, ex, st, a):
        return [(st, st.get(st.get(a["self"], "entity"), "record"))]


class FsFiles(Contract):
    """the patterns handed to filterdir: `*.<ext>` for every extension, in order"""
    file, qual = BASE, "FilesystemRegistry._files"
    props = ("C20",)
    inline_at_call_sites = True

    def setup(self, ex, st, variant):
        reg = VObj("FilesystemRegistry")
        st.set_inplace(reg, "_extensions", VTuple([VT(tm.V("e0", STR)), VT(tm.V("e1", STR)), VT(tm.S("genbank"))]))
        return dict(self=reg)

    def ensures(self, ex, pre, st, a, result):
        if not isinstance(result, VList):
            return [("a-list", None)]
        items = st.get(result, "items")
        exts = pre.get(a["self"], "_extensions").items
        if len(items) != len(exts):
            return [("one-pattern-per-extension", None)]
        return [("one-pattern-per-extension", tm.TRUE)] + [
            ("pattern-%d" % i, tm.eq(p.t, tm.concat("*.", e.t)) if isinstance(p, VT) else tm.FALSE) for i, (p, e) in enumerate(zip(items, exts))]

    def result(self, ex, st, a):
        st, l = ex.new_list(st, [VT(tm.concat("*.", e.t)) for e in st.get(a["self"], "_extensions").items])
        return [(st, l)]


CONTRACTS += [CombinedInit(), CombinedLShift(), ItemRecord(), FsFiles()]


class FsInit(Contract):
    """a directory registry is created for a part / module / vector class only (TypeError otherwise); it keeps the base
    class and the extensions it is given and opens the directory read-only"""
    file, qual = BASE, "FilesystemRegistry.__init__"
    props = ("C20",)
    inline_at_call_sites = True
    variants = ("base-part", "base-module", "base-vector", "base-not-a-class", "base-another-class", "base-part/extensions")

    def setup(self, ex, st, variant):
        self.variant = variant
        if variant.startswith("base-part"):
            base = ex.models.sym_class("AbstractPart", tm.V("base", INT))
        elif variant == "base-module":
            base = ex.models.sym_class("AbstractModule", tm.V("base", INT))
        elif variant == "base-vector":
            base = ex.models.sym_class("AbstractVector", tm.V("base", INT))
        elif variant == "base-not-a-class":
            base = VT(tm.V("base", STR))
        else:
            base = VClass("CircularRecord", ex.repo.find_class("CircularRecord"))
        a = dict(self=VObj("FilesystemRegistry"), fs_url=VT(tm.V("url", STR)), base=base)
        if variant.endswith("/extensions"):
            a["extensions"] = VTuple([VT(tm.S("genbank")), VT(tm.S("gb"))])
        return a

    def raises(self, ex, st, a):
        return [("TypeError", tm.B(self.variant in ("base-not-a-class", "base-another-class")), None)]

    def ensures(self, ex, pre, st, a, result):
        s = a["self"]
        exts = st.get(s, "_extensions")
        want = ["genbank", "gb"] if self.variant.endswith("/extensions") else ["gb", "gbk"]
        got = [tm.cval(x.t) for x in exts.items if isinstance(x, VT) and tm.is_const(x.t)] if isinstance(exts, VTuple) else None
        fsv = st.get(s, "fs")
        return [("keeps-the-base-class", tm.B(st.get(s, "base") is a["base"])),
                ("keeps-the-extensions", tm.B(got == want)),
                ("opens-the-directory", tm.B(isinstance(fsv, VObj) and fsv.kind == "FSAbs" and st.get(fsv, "url") is a["fs_url"]))]

    def result(self, ex, st, a):
        return [(st, NONE)]


CONTRACTS.append(FsInit())
