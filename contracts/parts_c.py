# coding: utf-8
"""Sidecar contracts for moclo/moclo/core/parts.py.

C05: for every part class that derives its structure from its signature, the structure is the signature-free
(generic) structure of the same enzyme and role with groups 1 and 3 replaced by the two signature halves
(module role: upstream then downstream; vector role: downstream then upstream).  characterize(record) returns an
instance of the first candidate type that accepts the record and raises RuntimeError exactly when none does."""
from __future__ import annotations

import ast

from pyvc import term as tm
from pyvc.term import INT, BOOL, STR
from pyvc.values import VT, VObj, VNone, NONE, VTuple, VList, VDict, VClass
from pyvc.contract import Contract, LoopSpec

FILE = "moclo/moclo/core/parts.py"
SEQI = tm.seq_sort(INT)


def enzyme_table():
    """real constants of every qualifying enzyme (and the three 3'-overhang flags)"""
    from bounded import gen
    out = {}
    for (name, e, site, a, k) in gen.qualifying_enzymes():
        out[name] = dict(elucidate=e.elucidate(), ovhgseq=e.ovhgseq, is_5overhang=e.is_5overhang(),
                         is_3overhang=e.is_3overhang(), is_blunt=e.is_blunt(), is_unknown=e.is_unknown(),
                         site=site, a=a, k=k)
    return out


def generic_structure(info, role):
    """the documented generic structure (C01.C1 checks the real AbstractModule/AbstractVector.structure() against it)"""
    from bounded import gen
    site, a, k = info["site"], info["a"], info["k"]
    rs = gen.rc(site)
    if role == "module":
        return site + "N" * a + "(" + "N" * k + ")(NN*N)(" + "N" * k + ")" + "N" * a + rs
    return "N(" + "N" * k + ")(" + "N" * a + rs + "N*" + site + "N" * a + ")(" + "N" * k + ")N"


class PartStructure(Contract):
    file, qual = FILE, "AbstractPart.structure"
    props = ("C05", "C04")

    def __init__(self):
        self._table = None

    @property
    def variants(self):
        if self._table is None:
            self._table = enzyme_table()
        seen, out = set(), []
        for name, info in sorted(self._table.items()):
            g = (len(info["site"]), info["a"], info["k"])
            if g in seen and name not in ("BsaI", "BsmBI", "BpiI", "BbsI"):
                continue
            seen.add(g)
            out += ["%s/module" % name, "%s/vector" % name]
        return out + ["no-role"]

    def setup(self, ex, st, variant):
        if variant == "no-role":
            cls = ex.models.sym_class("AbstractPart", tm.V("cls", INT))
            cls.roles = {"AbstractPart"}
            cls.cutter_info = self._table["BsaI"]
            return dict(cls=cls)
        name, role = variant.split("/")
        cls = ex.models.sym_class("AbstractPart", tm.V("cls", INT))
        cls.roles = {"AbstractPart", "AbstractModule" if role == "module" else "AbstractVector"}
        cls.cutter_info = self._table[name]
        return dict(cls=cls)

    def requires(self, ex, st, a):
        c = a["cls"].sym
        k = a["cls"].cutter_info["k"]
        return [("signature-halves-have-overhang-length",
                 tm.and_(tm.eq(tm.slen(tm.app("upsig", STR, c)), k), tm.eq(tm.slen(tm.app("downsig", STR, c)), k)))]

    def raises(self, ex, st, a):
        if a["cls"].roles == {"AbstractPart"}:
            return [("RuntimeError", tm.TRUE, None)]
        return []

    def ensures(self, ex, pre, st, a, result):
        cls = a["cls"]
        c = cls.sym
        info = cls.cutter_info
        role = "module" if "AbstractModule" in cls.roles else "vector"
        g = generic_structure(info, role)
        grp = "(" + "N" * info["k"] + ")"
        pre_, mid, post = g.split(grp)
        up, down = tm.app("upsig", STR, c), tm.app("downsig", STR, c)
        first, third = (up, down) if role == "module" else (down, up)
        want = tm.concat(pre_, "(", first, ")", mid, "(", third, ")", post)
        return [("generic-structure-with-groups-1-and-3-replaced-by-the-signature", tm.eq(result.t, want))]

    def result(self, ex, st, a):
        return [(st, VT(tm.fresh("structure", STR)))]

    def model_terms(self, ex, st, a):
        c = a["cls"].sym
        return dict(upsig=tm.app("upsig", STR, c), downsig=tm.app("downsig", STR, c))


class CharLoop(LoopSpec):
    kind = ast.For
    def __init__(self, con):
        self.con = con

    def invariant(self, ex, st, ctx):
        j = tm.V("j", INT)
        C = self.con.cands(st)
        return [("no-earlier-candidate-accepts", tm.forall_range(j, 0, ctx["k"], tm.not_(accepts(tm.seqnth(C, j), self.con.rec))))]


def accepts(c, rec):
    return tm.app("accepts", BOOL, c, rec)


class Characterize(Contract):
    """characterize(record): an instance of a candidate type that accepts the record (the first one, in the order
    direct subclasses then the class itself when it is concrete); RuntimeError exactly when no candidate accepts it."""
    file, qual = FILE, "AbstractPart.characterize"
    props = ("C05", "C20")
    variants = ("abstract-base", "concrete-base")

    def setup(self, ex, st, variant):
        ex.models.elem_kind = "PartClass"
        cls = ex.models.sym_class("AbstractPart", tm.V("cls", INT))
        cls.subclasses = tm.V("subs", SEQI)
        cls.is_abstract = tm.B(variant == "abstract-base")
        rec = ex.models.sym_record(st, "CircularRecord", "record")
        st.set_inplace(rec, "ident", VT(tm.V("rec", INT)))
        self.rec = tm.V("rec", INT)
        self.loops = {0: CharLoop(self)}
        self._cls = cls
        return dict(cls=cls, record=rec)

    def cands(self, st):
        cls = self._cls
        C = cls.subclasses
        if not tm.cval(cls.is_abstract):
            C = tm.seqcat(C, tm.sequnit(cls.sym))
        return C

    def _C(self, a):
        cls = a["cls"]
        if not hasattr(cls, "subclasses"):
            return None
        C = cls.subclasses
        if not tm.cval(cls.is_abstract):
            C = tm.seqcat(C, tm.sequnit(cls.sym))
        return C

    def raises(self, ex, st, a):
        C = self._C(a)
        if C is None:
            return [("RuntimeError", None, None)]
        j = tm.V("j", INT)
        rec = st.get(a["record"], "ident").t
        return [("RuntimeError", tm.forall_range(j, 0, tm.seqlen(C), tm.not_(accepts(tm.seqnth(C, j), rec))), None)]

    def ensures(self, ex, pre, st, a, result):
        C = self._C(a)
        if C is None:
            return []
        rec = pre.get(a["record"], "ident").t
        if not isinstance(result, VObj):
            return [("returns-an-entity", tm.FALSE)]
        rc_ = st.get(result, "__class__")
        c = rc_.sym if rc_ is not None and hasattr(rc_, "sym") else None
        if c is None:
            return [("returns-an-instance-of-a-candidate", tm.FALSE)]
        j, i = tm.V("j", INT), tm.V("i", INT)
        return [("candidate-accepts-the-record", accepts(c, rec)),
                ("is-a-candidate-type", tm.exists_range(j, 0, tm.seqlen(C), tm.eq(tm.seqnth(C, j), c))),
                ("wraps-the-record", tm.B(st.get(result, "record") is a["record"]))]

    def result(self, ex, st, a):
        st = st.fork()
        e = VObj("AbstractPart")
        st.set_inplace(e, "record", a["record"])
        c = ex.models.sym_class("AbstractPart", tm.fresh("cand", INT))
        st.set_inplace(e, "__class__", c)
        return [(st, e)]

    def model_terms(self, ex, st, a):
        C = self._C(a)
        return dict(candidates=C) if C is not None else {}


class IsAbstract(Contract):
    """moclo._utils.isabstract(cls): the class is abstract in the sense of abc, or one of the attributes dir(cls) lists
    has the value NotImplemented (an undeclared cutter / signature).  A function of the class only (no state is read or
    written): callers may treat it as a constant of the class."""
    file, qual = "moclo/moclo/_utils.py", "isabstract"
    props = ("C05",)

    def setup(self, ex, st, variant):
        return dict(cls=ex.models.sym_class("AbstractPart", tm.V("cls", INT)))

    @staticmethod
    def meaning(c):
        i = tm.V("i", INT)
        names = tm.app("cls_dir", tm.seq_sort(STR), c)
        return tm.or_(tm.app("abc_abstract", BOOL, c),
                      tm.exists_range(i, 0, tm.seqlen(names), tm.app("attr_is_notimplemented", BOOL, c, tm.seqnth(names, i))))

    def ensures(self, ex, pre, st, a, result):
        if not isinstance(result, VT):
            return [("returns-a-truth-value", tm.FALSE)]
        return [("abstract-iff-abc-abstract-or-some-attribute-is-NotImplemented", tm.eq(ex.truth(st, result), self.meaning(a["cls"].sym)))]

    def result(self, ex, st, a):
        c = a["cls"]
        if hasattr(c, "is_abstract"):
            return [(st, VT(c.is_abstract))]
        return [(st, VT(tm.app("isabstract", BOOL, c.sym)))]


CONTRACTS = [PartStructure(), Characterize(), IsAbstract()]


class GenericStructure(Contract):
    """AbstractModule.structure / AbstractVector.structure: the structure derived from the enzyme's elucidated cut
    pattern is the documented one (standard.rst): module  site.N^a.(N^k)(NN*N)(N^k).N^a.rc(site);
    vector  N(N^k)(N^a.rc(site).N*.site.N^a)(N^k)N -- executed symbolically for every qualifying enzyme geometry with the
    real constants of Bio.Restriction (elucidate() is a constant of the enzyme: D-RESTR)"""
    props = ("C01", "C04", "C12")
    role = None

    def __init__(self):
        self._table = None

    @property
    def variants(self):
        if self._table is None:
            self._table = enzyme_table()
        seen, out = set(), []
        for name, info in sorted(self._table.items()):
            g = (len(info["site"]), info["a"], info["k"])
            if g in seen and name not in ("BsaI", "BsmBI", "BpiI", "BbsI"):
                continue
            seen.add(g)
            out.append(name)
        return out

    def setup(self, ex, st, variant):
        cls = ex.models.sym_class("AbstractModule" if self.role == "module" else "AbstractVector", tm.V("cls", INT))
        cls.roles = {"AbstractModule" if self.role == "module" else "AbstractVector"}
        cls.cutter_info = self._table[variant]
        return dict(cls=cls)

    def ensures(self, ex, pre, st, a, result):
        if not isinstance(result, VT):
            return [("returns-a-pattern", None)]
        return [("derived-structure-has-the-documented-shape", tm.eq(result.t, tm.S(generic_structure(a["cls"].cutter_info, self.role))))]

    def result(self, ex, st, a):
        info = getattr(a["cls"], "cutter_info", None)
        if info is not None:
            return [(st, VT(tm.S(generic_structure(info, self.role))))]
        return [(st, VT(tm.fresh("structure", STR)))]


class ModuleStructure(GenericStructure):
    file, qual, role = "moclo/moclo/core/modules.py", "AbstractModule.structure", "module"


class VectorStructure(GenericStructure):
    file, qual, role = "moclo/moclo/core/vectors.py", "AbstractVector.structure", "vector"


CONTRACTS += [ModuleStructure(), VectorStructure()]
