# coding: utf-8
"""Sidecar contracts for moclo/moclo/core/parts.py."""
from __future__ import annotations

from pyvc import term as tm
from pyvc.term import INT, BOOL, STR
from pyvc.values import VT, VObj, VNone, NONE, VTuple, VList, VDict, VClass
from pyvc.contract import Contract, LoopSpec

FILE = "moclo/moclo/core/parts.py"


class Characterize(Contract):
    """characterize(record): an instance of a candidate type that accepts the record; RuntimeError exactly when no
    candidate type accepts it.  (abstract view used by registries; the body is checked in C05)"""
    file, qual = FILE, "AbstractPart.characterize"
    props = ("C05", "C20")
    trusted_body = True

    def setup(self, ex, st, variant):
        return dict(cls=ex.models.sym_class("AbstractPart", tm.V("cls", INT)),
                    record=ex.models.sym_record(st, "CircularRecord", "record"))

    def raises(self, ex, st, a):
        return [("RuntimeError", None, None)]

    def result(self, ex, st, a):
        st = st.fork()
        e = VObj("AbstractPart")
        st.set_inplace(e, "record", a["record"])
        return [(st, e)]


CONTRACTS = [Characterize()]
