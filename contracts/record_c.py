# coding: utf-8
"""Sidecar contracts for moclo/moclo/record.py (CircularRecord)."""
from __future__ import annotations

from pyvc import term as tm
from pyvc.term import INT, BOOL, STR
from pyvc.values import VT, VObj, VNone, NONE, VTuple, VList, VDict, VSlice, VRepList, VClass, VOpaque
from pyvc.contract import Contract, LoopSpec
from pyvc.models_bio import FEATS, DBX, ELEMS
from pyvc import models as M

FILE = "moclo/moclo/record.py"


def crec(ex, st, prefix="self", **kw):
    kw.setdefault("ann_keys", ("topology",))
    return ex.models.sym_record(st, "CircularRecord", prefix, **kw)


def inv_crec(ex, st, rec):
    """representation invariant of a CircularRecord: a declared topology is `circular` (the constructor
    refuses anything else, and nothing in the package rewrites it on a CircularRecord)"""
    items = ann_items(st, rec)
    if "topology" in items:
        return [("inv_crec:declared-circular", tm.eq(tm.lower(items["topology"].t), "circular"))]
    return []


def text(ex, st, v):
    return ex.models.text(st, v)


def same_fields(ex, pre, st, a, b, fields):
    out = []
    for f in fields:
        x, y = pre.get(a, f), st.get(b, f)
        if isinstance(x, VT) and isinstance(y, VT):
            out.append(("carries-" + f, tm.eq(x.t, y.t)))
        else:
            out.append(("carries-" + f, tm.B(x is y)))
    return out


def ann_items(st, rec):
    ann = st.get(rec, "annotations")
    if isinstance(ann, VDict):
        return st.get(ann, "items")
    return {}


class GetItem(Contract):
    """slices are plain linear records equal to the ordinary string slice, never claiming circular topology"""
    file, qual = FILE, "CircularRecord.__getitem__"
    props = ("C15", "C07", "C08")
    variants = ("slice-with-topology", "slice-no-topology", "stepped-slice")

    def setup(self, ex, st, variant):
        self_ = crec(ex, st, ann_keys=("topology", "molecule_type") if variant != "slice-no-topology" else ())
        lo, hi = VT(tm.V("lo", INT)), VT(tm.V("hi", INT))
        return dict(self=self_, index=VSlice(lo, hi, VT(tm.V("step", INT)) if variant == "stepped-slice" else None))

    def requires(self, ex, st, a):
        step = a["index"].step
        return [] if step is None else [("step-not-zero", tm.ne(step.t, 0))]

    def ensures(self, ex, pre, st, a, result):
        if a["index"].step is not None:
            # a stepped slice is an ordinary linear slice too: Biopython's own text[lo:hi:step] in a plain record
            lo, hi, step = a["index"].lo.t, a["index"].hi.t, a["index"].step.t
            out = [("plain-linear-record", tm.B(isinstance(result, VObj) and result.kind == "SeqRecord")),
                   ("text-is-string-slice", tm.eq(text(ex, st, result), tm.app("strided_text", STR, text(ex, pre, a["self"]), lo, hi, step)))]
            items = ann_items(st, result)
            out.append(("never-circular-topology", tm.ne(tm.lower(items["topology"].t), "circular") if "topology" in items else tm.TRUE))
            out += same_fields(ex, pre, st, a["self"], result, ("id", "name", "description"))
            out.append(("letter-annotations-sliced",
                        tm.eq(st.get(st.get(result, "letter_annotations"), "rep").t,
                              tm.app("strided_elems", STR, pre.get(pre.get(a["self"], "letter_annotations"), "rep").t, lo, hi, step))))
            return out
        lo, hi = ex.slice_terms(a["index"])
        s = text(ex, pre, a["self"])
        n = tm.slen(s)
        lo_i = tm.I(0) if lo is None else tm.pyidx(lo, n)
        hi_i = n if hi is None else tm.pyidx(hi, n)
        out = [("plain-linear-record", tm.B(isinstance(result, VObj) and result.kind == "SeqRecord")),
               ("text-is-string-slice", tm.eq(text(ex, st, result), tm.pyslice(s, lo, hi)))]
        items = ann_items(st, result)
        if "topology" in items:
            out.append(("never-circular-topology", tm.ne(tm.lower(items["topology"].t), "circular")))
        else:
            out.append(("never-circular-topology", tm.TRUE))
        out += same_fields(ex, pre, st, a["self"], result, ("id", "name", "description"))
        out.append(("features-sliced", tm.eq(ex.models.feats_term(st, st.get(result, "features")),
                                             tm.app("feats_slice", FEATS, ex.models.feats_term(
                                                 pre, pre.get(a["self"], "features")), lo_i, hi_i, n))))
        out.append(("letter-annotations-sliced",
                    tm.eq(st.get(st.get(result, "letter_annotations"), "rep").t,
                          tm.pyslice(pre.get(pre.get(a["self"], "letter_annotations"), "rep").t, lo, hi))))
        return out

    def result(self, ex, st, a):
        st = st.fork()
        r = ex.models.sym_record(st, "SeqRecord", "slice!%d" % next(tm._fresh), ann_keys=())
        return [(st, r)]

    def model_terms(self, ex, st, a):
        if a["index"].step is not None:
            return dict(seq=text(ex, st, a["self"]), lo=a["index"].lo.t, hi=a["index"].hi.t, step=a["index"].step.t)
        lo, hi = ex.slice_terms(a["index"])
        return dict(seq=text(ex, st, a["self"]), lo=lo, hi=hi)


class Contains(Contract):
    file, qual = FILE, "CircularRecord.__contains__"
    props = ("C15",)
    variants = ("str",)   # queries are strings (a Seq operand is refused by str.__contains__ with TypeError)

    def setup(self, ex, st, variant):
        char = VT(tm.V("char", STR)) if variant == "str" else ex.models.mk_seq(st, tm.V("char", STR))
        return dict(self=crec(ex, st), char=char)

    def ensures(self, ex, pre, st, a, result):
        s, c = text(ex, pre, a["self"]), text(ex, pre, a["char"])
        # closed form; C15.L1 (props/C15) shows it equals "no longer than the record and occurs in some rotation"
        return [("circular-membership", tm.eq(result.t, tm.and_(tm.le(tm.slen(c), tm.slen(s)),
                                                                tm.contains(tm.concat(s, s), c))))]

    def result(self, ex, st, a):
        return [(st, VT(tm.fresh("contains", BOOL)))]

    def model_terms(self, ex, st, a):
        return dict(seq=text(ex, st, a["self"]), char=text(ex, st, a["char"]))


class Ambiguous(Contract):
    """+ on a circular record is refused with TypeError, whatever the operand"""
    file = FILE
    props = ("C15",)
    variants = ("str", "Seq", "SeqRecord", "CircularRecord", "int")
    exact_raises = True

    def setup(self, ex, st, variant):
        if variant == "str":
            o = VT(tm.V("other", STR))
        elif variant == "int":
            o = VT(tm.V("other", INT))
        elif variant == "Seq":
            o = ex.models.mk_seq(st, tm.V("other", STR))
        else:
            o = ex.models.sym_record(st, variant, "other")
        return dict(self=crec(ex, st), other=o)

    def raises(self, ex, st, a):
        return [("TypeError", tm.TRUE, None)]

    def result(self, ex, st, a):
        return []


class Add(Ambiguous):
    qual = "CircularRecord.__add__"


class RAdd(Ambiguous):
    qual = "CircularRecord.__radd__"


class LShift(Contract):
    """left rotation is the inverse of right rotation: (r << k) = r >> (-k mod n)"""
    file, qual = FILE, "CircularRecord.__lshift__"
    props = ("C13", "C02", "C01")

    def setup(self, ex, st, variant):
        return dict(self=crec(ex, st), index=VT(tm.V("index", INT)))

    def requires(self, ex, st, a):
        return [("nonempty", tm.lt(0, tm.slen(text(ex, st, a["self"]))))] + inv_crec(ex, st, a["self"])

    def ensures(self, ex, pre, st, a, result):
        return rot_ensures(ex, pre, st, a["self"], tm.sub(0, a["index"].t), result)

    def result(self, ex, st, a):
        return rot_result(ex, st, a["self"], tm.sub(0, a["index"].t))

    def model_terms(self, ex, st, a):
        return dict(seq=text(ex, st, a["self"]), index=a["index"].t,
                    letan=st.get(st.get(a["self"], "letter_annotations"), "rep").t)


def rot_ensures(ex, pre, st, self_, k, result):
    """result is `self` rotated right by k (any integer): last k letters to the front, every per-letter
    annotation value moves with its letter, identifiers/annotations carried, features = feats_rot"""
    s = text(ex, pre, self_)
    n = tm.slen(s)
    la0 = pre.get(pre.get(self_, "letter_annotations"), "rep").t
    la1 = st.get(st.get(result, "letter_annotations"), "rep").t
    i = tm.pymod(k, n)
    out = [
        ("circular-record", tm.B(isinstance(result, VObj) and result.kind == "CircularRecord")),
        ("last-k-letters-to-front", tm.eq(text(ex, st, result), tm.rot(s, k))),
        ("letter-annotations-follow-letters",
         tm.implies(tm.eq(tm.slen(la0), n), tm.eq(la1, tm.rot_i(la0, i)))),
    ]
    out += same_fields(ex, pre, st, self_, result, ("id", "name", "description"))
    f0, f1 = pre.get(self_, "features"), st.get(result, "features")
    if isinstance(f0, VT) and isinstance(f1, VT):
        out.append(("features-rotated", tm.eq(f1.t, tm.ite(tm.eq(i, 0), f0.t, tm.app("feats_rot", FEATS, f0.t, i, n)))))
    a0, a1 = ann_items(pre, self_), ann_items(st, result)
    out.append(("annotations-carried", tm.B(set(a0) == set(a1)) if not a0 else tm.and_(
        tm.B(set(a0) == set(a1)), *[tm.eq(a0[k_].t, a1[k_].t) for k_ in a0 if k_ in a1])))
    return out


def rot_result(ex, st, self_, k):
    """two outcomes, as in the code: a rotation by a multiple of the length hands back the record itself (the same
    object: whatever the caller then does to it, it does to the original); any other rotation builds a new record"""
    n = tm.slen(text(ex, st, self_))
    i = tm.pymod(k, n)
    same = st.assume(tm.eq(i, 0))
    st = st.assume(tm.ne(i, 0)).fork()
    keys = tuple(ann_items(st, self_).keys())
    r = ex.models.sym_record(st, "CircularRecord", "rot!%d" % next(tm._fresh), ann_keys=keys)
    return [(same, self_), (st, r)]


class Init(Contract):
    """wrapping a record copies it; a record declared linear cannot be wrapped"""
    file, qual = FILE, "CircularRecord.__init__"
    props = ("C15", "C13", "C14", "C01")
    variants = ("from-record-circular", "from-record-no-topology", "from-seq-annotated", "from-seq-plain",
                "from-seqrecord-linear-kind")

    def setup(self, ex, st, variant):
        self_ = VObj("CircularRecord")
        if variant.startswith("from-record") or variant == "from-seqrecord-linear-kind":
            keys = ("topology",) if variant != "from-record-no-topology" else ()
            src = ex.models.sym_record(st, "SeqRecord", "src", ann_keys=keys)
            return dict(self=self_, seq=src)
        seq = ex.models.mk_seq(st, tm.V("seq", STR))
        a = dict(self=self_, seq=seq, id=VT(tm.V("id", STR)), name=VT(tm.V("name", STR)),
                 description=VT(tm.V("description", STR)),
                 dbxrefs=VT(tm.V("dbxrefs", DBX), "list"), features=VT(tm.V("features", FEATS), "list"))
        la = VObj("LetAnn")
        st.set_inplace(la, "rep", VT(tm.V("letan", ELEMS), "list"))
        a["letter_annotations"] = la
        if variant == "from-seq-annotated":
            d = VDict(M.new_oid())
            st.set_inplace(d, "items", {"topology": VT(tm.V("ann.topology", STR))})
            a["annotations"] = d
        return a

    def _topology(self, st, a):
        src = a["seq"]
        if isinstance(src, VObj) and src.kind != "Seq":
            items = ann_items(st, src)
        else:
            ann = a.get("annotations")
            items = st.get(ann, "items") if isinstance(ann, VDict) else {}
        return items.get("topology")

    def raises(self, ex, st, a):
        t = self._topology(st, a)
        if t is None:
            return []
        return [("ValueError", tm.ne(tm.lower(t.t), "circular"), None)]

    def ensures(self, ex, pre, st, a, result):
        self_ = a["self"]
        src = a["seq"]
        out = []
        if isinstance(src, VObj) and src.kind != "Seq":
            out.append(("text-copied", tm.eq(text(ex, st, self_), text(ex, pre, src))))
            out += [(l.replace("carries", "copies"), t) for (l, t) in
                    same_fields(ex, pre, st, src, self_, ("id", "name", "description"))]
            for f in ("features", "dbxrefs"):
                x, y = pre.get(src, f), st.get(self_, f)
                out.append(("copies-" + f, tm.eq(x.t, y.t) if isinstance(x, VT) and isinstance(y, VT) else tm.B(x is y)))
            out.append(("copies-letter-annotations",
                        tm.eq(pre.get(pre.get(src, "letter_annotations"), "rep").t,
                              st.get(st.get(self_, "letter_annotations"), "rep").t)))
            # ownership ghost: the mutable containers of the copy are not those of the original, and share nothing
            # mutable with them (obtained by copy.deepcopy, not by dict()/list()/slicing); dbxrefs is a list of
            # strings: a new list suffices
            for f in ("annotations", "letter_annotations"):
                out.append(("fresh-" + f, tm.B(st.get(self_, f) is not pre.get(src, f))))
            for f in ("annotations", "features", "letter_annotations"):
                out.append(("deep-copy-of-" + f, tm.B(getattr(st.get(self_, f), "fresh", None) == "deep")))
            out.append(("copy-of-dbxrefs", tm.B(getattr(st.get(self_, "dbxrefs"), "fresh", None) in ("deep", "shallow"))))
            a0, a1 = ann_items(pre, src), ann_items(st, self_)
            out.append(("copies-annotations", tm.and_(tm.B(set(a0) == set(a1)),
                                                      *[tm.eq(a0[k].t, a1[k].t) for k in a0 if k in a1])))
        else:
            out.append(("text-stored", tm.eq(text(ex, st, self_), text(ex, pre, src))))
            for f in ("id", "name", "description"):
                out.append(("stores-" + f, tm.eq(st.get(self_, f).t, a[f].t)))
            out.append(("stores-features", tm.B(st.get(self_, "features") is a["features"])))
            out.append(("stores-letter-annotations", tm.B(st.get(self_, "letter_annotations") is a["letter_annotations"])))
        return out

    def result(self, ex, st, a):
        st = st.fork()
        self_, src = a["self"], a["seq"]
        if isinstance(src, VObj) and src.kind != "Seq":
            st.set_inplace(self_, "seq", ex.models.mk_seq(st, text(ex, st, src)))
            for f in ("id", "name", "description"):
                st.set_inplace(self_, f, st.get(src, f))
            for f in ("features", "dbxrefs"):
                v_ = st.get(src, f)
                st.set_inplace(self_, f, M.tag_fresh(VT(v_.t, v_.py), "deep") if isinstance(v_, VT) else v_)
            la = VObj("LetAnn")
            st.set_inplace(la, "rep", st.get(st.get(src, "letter_annotations"), "rep"))
            st.set_inplace(self_, "letter_annotations", M.tag_fresh(la, "deep"))
            d = VDict(M.new_oid())
            st.set_inplace(d, "items", dict(ann_items(st, src)))
            st.set_inplace(self_, "annotations", M.tag_fresh(d, "deep"))
        else:
            st.set_inplace(self_, "seq", src)
            for f, dflt in (("id", "<unknown id>"), ("name", "<unknown name>"),
                            ("description", "<unknown description>")):
                st.set_inplace(self_, f, a.get(f) if a.get(f) is not None else VT(tm.S(dflt)))
            feats = a.get("features")
            st.set_inplace(self_, "features", feats if feats is not None and not isinstance(feats, VNone) else VT(
                tm.app("feats_empty", FEATS), "list"))
            dbx = a.get("dbxrefs")
            st.set_inplace(self_, "dbxrefs", dbx if dbx is not None and not isinstance(dbx, VNone) else VT(
                tm.app("dbx_empty", DBX), "list"))
            ann = a.get("annotations")
            if ann is None or isinstance(ann, VNone):
                ann = VDict(M.new_oid())
                st.set_inplace(ann, "items", {})
            st.set_inplace(self_, "annotations", ann)
            la = a.get("letter_annotations")
            if la is None or isinstance(la, VNone):
                la = VObj("LetAnn")
                st.set_inplace(la, "rep", VT(tm.S(""), "list"))
            st.set_inplace(self_, "letter_annotations", la)
        return [(st, NONE)]

    def model_terms(self, ex, st, a):
        t = self._topology(st, a)
        d = dict(seq=text(ex, st, a["seq"]))
        if t is not None:
            d["topology"] = t.t
        return d


class ReverseComplement(Contract):
    """the reverse complement of a circular record is again a circular record whose text is the reverse
    complement; features/letter annotations are delegated to SeqRecord.reverse_complement with the flags of
    the signature (features and letter annotations kept by default)"""
    file, qual = FILE, "CircularRecord.reverse_complement"
    props = ("C14", "C12")
    variants = ("defaults",)

    def setup(self, ex, st, variant):
        return dict(self=crec(ex, st, ann_keys=("topology",)))

    def requires(self, ex, st, a):
        return inv_crec(ex, st, a["self"])

    def ensures(self, ex, pre, st, a, result):
        s = text(ex, pre, a["self"])
        n = tm.slen(s)
        f0 = ex.models.feats_term(pre, pre.get(a["self"], "features"))
        out = [("circular-record", tm.B(isinstance(result, VObj) and result.kind == "CircularRecord")),
               ("text-is-reverse-complement", tm.eq(text(ex, st, result), tm.app("rc", STR, s))),
               ("features-flipped-not-dropped",
                tm.eq(ex.models.feats_term(st, st.get(result, "features")), tm.app("feats_flip", FEATS, f0, n))),
               ("letter-annotations-reversed",
                tm.eq(st.get(st.get(result, "letter_annotations"), "rep").t,
                      tm.app("seq_rev", ELEMS, pre.get(pre.get(a["self"], "letter_annotations"), "rep").t)))]
        return out

    def result(self, ex, st, a):
        st = st.fork()
        r = ex.models.sym_record(st, "CircularRecord", "rc!%d" % next(tm._fresh), ann_keys=())
        return [(st, r)]

    def model_terms(self, ex, st, a):
        return dict(seq=text(ex, st, a["self"]))


class RShift(Contract):
    """Rotating right by k moves the last k letters to the front; every per-letter annotation value and
    every feature part stays attached to the same nucleotides; identifiers, qualifiers, annotations carried.

    Feature level (pointwise, on the generic feature f of the table and the generic part p of its
    location): type, id and qualifiers are carried; a feature without location keeps none; the whole-circle
    `source` feature is left as is (DESIGN 7.4); otherwise every part keeps its length, strand and reference
    and starts at (p.start + i) mod n, i.e. on the same nucleotide of the rotated sequence."""
    file, qual = FILE, "CircularRecord.__rshift__"
    props = ("C13", "C08", "C02")
    variants = ("loc-some", "loc-none")

    def setup(self, ex, st, variant):
        from pyvc.models_bio import sym_feature, loc_facts
        if variant == "abstract-table":
            self_ = crec(ex, st)
            return dict(self=self_, index=VT(tm.V("index", INT)))
        f = sym_feature(st, "f", with_location=(variant == "loc-some"))
        feats = VRepList(f, tm.V("nfeatures", INT))
        self_ = crec(ex, st, feats=feats)
        return dict(self=self_, index=VT(tm.V("index", INT)))

    def requires(self, ex, st, a):
        from pyvc.models_bio import loc_facts
        s = text(ex, st, a["self"])
        n = tm.slen(s)
        out = [("nonempty", tm.lt(0, n))] + inv_crec(ex, st, a["self"])
        feats = st.get(a["self"], "features")
        if isinstance(feats, VRepList) and isinstance(st.get(feats.rep, "location"), VObj):
            loc = st.get(feats.rep, "location")
            p = st.get(loc, "parts").rep
            out.append(("D-LOC:min-max", tm.and_(*loc_facts(st, loc))))
            # representation invariant of locations on a record of length n (INV_loc)
            out.append(("inv_loc", tm.and_(tm.le(0, st.get(p, "start").t), tm.le(st.get(p, "start").t, st.get(p, "end").t),
                                           tm.le(st.get(p, "start").t, n))))
        return out

    def ensures(self, ex, pre, st, a, result):
        out = rot_ensures(ex, pre, st, a["self"], a["index"].t, result)
        s = text(ex, pre, a["self"])
        n = tm.slen(s)
        i = tm.pymod(a["index"].t, n)
        feats0 = pre.get(a["self"], "features")
        feats1 = st.get(result, "features")
        if not isinstance(feats0, VRepList):
            return out
        f = feats0.rep
        if feats1 is feats0:
            # the record itself was returned (i = 0): nothing moved
            out.append(("features-untouched-when-i=0", tm.eq(i, 0)))
            return out
        if not (isinstance(feats1, VRepList) and getattr(feats1, "alts", None) and feats1.source is feats0):
            out.append(("features-are-pointwise-images", None))
            return out
        out.append(("one-image-per-feature", tm.eq(feats1.length, feats0.length)))
        loc0 = pre.get(f, "location")
        for j, (conds, f1, s1) in enumerate(feats1.alts):
            hyp = tm.and_(*conds)

            def cl(label, t):
                out.append(("feature[%d]:%s" % (j, label), tm.implies(hyp, t) if t is not None else None))

            for fld in ("type", "id", "qualifiers"):
                x, y = pre.get(f, fld), s1.get(f1, fld)
                cl("carries-" + fld, tm.eq(x.t, y.t) if isinstance(x, VT) and isinstance(y, VT) else tm.B(x is y))
            loc1 = s1.get(f1, "location")
            if isinstance(loc0, VNone):
                cl("no-location-stays-none", tm.B(isinstance(loc1, VNone)))
                continue
            if isinstance(loc1, VNone):
                cl("location-kept", tm.FALSE)
                continue
            # from the statement (DESIGN 7.4), not from the code: only the `source` feature that *is* the whole circle --
            # one part, [0, n) -- may stay as it is; a source-typed join that merely touches both ends must move
            whole_source = tm.and_(tm.eq(pre.get(f, "type").t, "source"), tm.eq(pre.get(loc0, "start").t, 0),
                                   tm.eq(pre.get(loc0, "end").t, n), tm.eq(pre.get(loc0, "parts").length, 1))
            if loc1 is loc0:
                cl("only-whole-circle-source-left-as-is", whole_source)
                continue
            p0 = pre.get(loc0, "parts").rep
            if loc1.kind == "FeatureLocation":
                p1, np1 = loc1, tm.I(1)
            else:
                parts1 = s1.get(loc1, "parts")
                p1, np1 = parts1.rep, parts1.length
            cl("same-number-of-parts", tm.eq(np1, pre.get(loc0, "parts").length))
            if p1 is None:
                cl("parts-are-pointwise-images", None)
                continue
            st0, en0 = pre.get(p0, "start").t, pre.get(p0, "end").t
            st1, en1 = s1.get(p1, "start").t, s1.get(p1, "end").t
            # C13: attached to the same nucleotides (coordinates read modulo n) ...
            cl("part-same-nucleotide", tm.eq(tm.pymod(st1, n), tm.pymod(tm.add(st0, i), n)))
            # ... C08 additionally needs the start brought back into [0, n): slicing keeps a feature only by its
            # literal coordinates (D-REC-SLICE)
            cl("part-start-normalised", tm.and_(tm.le(0, st1), tm.lt(st1, n)))
            cl("part-same-length", tm.eq(tm.sub(en1, st1), tm.sub(en0, st0)))
            cl("part-same-strand", tm.eq(s1.get(p1, "strand").t, pre.get(p0, "strand").t))
            cl("part-same-ref", tm.and_(tm.eq(s1.get(p1, "ref").t, pre.get(p0, "ref").t),
                                        tm.eq(s1.get(p1, "ref_db").t, pre.get(p0, "ref_db").t)))
        return out

    def result(self, ex, st, a):
        return rot_result(ex, st, a["self"], a["index"].t)

    def model_terms(self, ex, st, a):
        d = dict(seq=text(ex, st, a["self"]), index=a["index"].t,
                 letan=st.get(st.get(a["self"], "letter_annotations"), "rep").t)
        feats = st.get(a["self"], "features")
        if isinstance(feats, VRepList) and isinstance(st.get(feats.rep, "location"), VObj):
            loc = st.get(feats.rep, "location")
            p = st.get(loc, "parts").rep
            d.update(ftype=st.get(feats.rep, "type").t, pstart=st.get(p, "start").t, pend=st.get(p, "end").t,
                     pstrand=st.get(p, "strand").t, lmin=st.get(loc, "start").t, lmax=st.get(loc, "end").t,
                     nparts=st.get(loc, "parts").length)
        return d


CONTRACTS = [GetItem(), Contains(), Add(), RAdd(), LShift(), RShift(), Init(), ReverseComplement()]
