# coding: utf-8
"""Sidecar contracts for moclo/moclo/core/modules.py, vectors.py and core/_utils.py.

Group convention (from the code's docstrings): modules: 1 = upstream overhang, 2 = target body, 3 = downstream
overhang; vectors: 1 = downstream overhang, 2 = placeholder body, 3 = upstream overhang.  Supported enzymes
leave a 5' overhang (`not is_3overhang`, a requires of every contract here; C01's quantifier).

Postconditions come from C04: the overhangs are the texts of groups 1/3 read on the circle, the module target
is the stretch from the first cut to the second (leading overhang included, trailing excluded), the vector
target is the complementary stretch, and the vector placeholder is the *contiguous* stretch from the first
cut to the second, so that placeholder and target partition the circle."""
from __future__ import annotations

from pyvc import term as tm
from pyvc.term import INT, BOOL, STR
from pyvc.values import VT, VObj, VNone, NONE, VTuple, VList, VDict, VClass
from pyvc.contract import Contract
from pyvc.models import re_at, re_window, rematch_span_terms
from pyvc.models_bio import FEATS
from contracts import regex_c
from contracts.structured_c import entity_requires, match_terms, cache_cover_hint, BaseMatch, entity_terms
from contracts.record_c import ann_items

MOD = "moclo/moclo/core/modules.py"
VEC = "moclo/moclo/core/vectors.py"
UTL = "moclo/moclo/core/_utils.py"


def cutter_id(st, e):
    return tm.app("cutter_of", INT, st.get(e, "__class__").sym)


def is3(st, e):
    return tm.app("is_3overhang", BOOL, cutter_id(st, e))


def span_terms(st, sm, i):
    return rematch_span_terms(st, st.get(sm, "match"), tm.I(i))


def doubled_text(ex, st, e):
    s = ex.models.rec_text(st, st.get(e, "record"))
    return s, tm.concat(s, s)


class EntityMatch(Contract):
    """AbstractModule._match / AbstractVector._match: the base match, screened: the digest of the matched
    region by the class's cutter must give at most 3 fragments, else IllegalSite (an InvalidSequence)."""
    props = ("C04", "C17", "C02", "C06")
    variants = ("CircularRecord",)
    symbase = None

    def setup(self, ex, st, variant):
        ex.models.init_cache(st)
        rec = ex.models.sym_record(st, "CircularRecord", "record", ann_keys=("topology",))
        return dict(self=ex.models.sym_entity(st, self.symbase, "self", record=rec))

    def requires(self, ex, st, a):
        return entity_requires(ex, st, a["self"])

    def cover_hint(self, ex, st, a):
        return cache_cover_hint(ex, st, st.get(a["self"], "record"))

    def _bm(self):
        return BaseMatch()

    def group0_text(self, ex, st, a, start, ln):
        s, d = doubled_text(ex, st, a["self"])
        return tm.substr(d, start, ln)

    def raises(self, ex, st, a):
        et = entity_terms(ex, st, a["self"])
        nomatch = self._bm()._no_match(ex, st, a, et["n"])
        g0 = tm.substr(et["d"], et["lm"], et["len"])
        illegal = tm.and_(tm.not_(nomatch), tm.lt(2, tm.app("ncuts", INT, cutter_id(st, a["self"]), g0)))
        return [("InvalidSequence", tm.or_(nomatch, illegal), None)]

    def assumes(self, ex, st, a):
        return [entity_terms(ex, st, a["self"])["axiom"]]

    def ensures(self, ex, pre, st, a, result):
        out = self._bm().ensures(ex, pre, st, a, result)
        if isinstance(result, VObj) and result.kind == "SeqMatch":
            m = st.get(result, "match")
            start, ln = st.get(m, "pos").t, st.get(m, "len").t
            g0 = self.group0_text(ex, pre, a, start, ln)
            out.append(("at-most-3-fragments", tm.le(tm.app("ncuts", INT, cutter_id(pre, a["self"]), g0), 2)))
            out.append(("match-length-is-re_len", tm.eq(ln, tm.app("re_len", INT, st.get(m, "pat").t, st.get(m, "w").t))))
        return out

    def result(self, ex, st, a):
        return self._bm().result(ex, st, a)

    def model_terms(self, ex, st, a):
        text, n, doubled, pat, linear = match_terms(ex, st, a["self"])
        return dict(text=text)


class ModuleMatch(EntityMatch):
    file, qual, symbase = MOD, "AbstractModule._match", "AbstractModule"


class VectorMatch(EntityMatch):
    file, qual, symbase = VEC, "AbstractVector._match", "AbstractVector"


def valid_or_raises(con, ex, st, a):
    """InvalidSequence exactly when the entity is not valid (same condition as _match)"""
    m = ModuleMatch() if con.symbase == "AbstractModule" else VectorMatch()
    return m.raises(ex, st, a)


def match_facts(ex, st, a, prefix):
    """the entity's cached match (D-CACHE: the one already computed on this path, if any), else a symbolic match
    of its own pattern satisfying the postcondition of _match, stored in the per-instance cache"""
    symbase = st.get(a["self"], "__class__").symbase
    key = "__cache__%s._match" % symbase
    got = st.get(a["self"], key)
    if got is not None:
        return st, got
    m = ModuleMatch() if symbase == "AbstractModule" else VectorMatch()
    (s2, sm), = m.result(ex, st, a)
    ens = [t for (_, t) in m.ensures(ex, st, s2, a, sm)]
    s2 = s2.assume(*ens)
    s2 = s2.set(a["self"], key, sm)
    return s2, sm


def is_abstract(st, e):
    return st.get(e, "ident") is not None


def wf(ident):
    """abstract view: the entity satisfies the preconditions of the entity contracts (system invariants
    INV_cache / inv_crec / inv_structure, 5' cutter)"""
    return tm.app("wf", BOOL, ident)


def valid(ident):
    """abstract view: the entity's class accepts its record (negation of the `raises` condition of _match)"""
    return tm.app("valid", BOOL, ident)


class EntityMethod(Contract):
    """common part of overhang_start/end, target_sequence, placeholder_sequence.

    Two views of the same contract: on a concrete entity (class and record symbolic) the closed forms are spelled
    out; on an *abstract* entity (an integer identity, used by the assembly contracts) the same closed forms are
    referred to by name: valid(e), ostart(e), oend(e), frag(e), efeats(e), eid(e) -- functions of the entity only."""
    variants = ("CircularRecord",)
    symbase = None
    props = ("C04", "C02", "C17", "C01")
    abstract_name = None

    def setup(self, ex, st, variant):
        ex.models.init_cache(st)
        rec = ex.models.sym_record(st, "CircularRecord", "record", ann_keys=("topology",))
        return dict(self=ex.models.sym_entity(st, self.symbase, "self", record=rec))

    def requires(self, ex, st, a):
        if is_abstract(st, a["self"]):
            return [("well-formed-entity", wf(st.get(a["self"], "ident").t))]
        return entity_requires(ex, st, a["self"]) + [("five-prime-cutter", tm.not_(is3(st, a["self"])))]

    def cover_hint(self, ex, st, a):
        return cache_cover_hint(ex, st, st.get(a["self"], "record"))

    def assumes(self, ex, st, a):
        if is_abstract(st, a["self"]):
            return []
        return [entity_terms(ex, st, a["self"])["axiom"]]

    def raises(self, ex, st, a):
        if is_abstract(st, a["self"]):
            return [("InvalidSequence", tm.not_(valid(st.get(a["self"], "ident").t)), None)]
        return valid_or_raises(self, ex, st, a)

    def the_match(self, ex, st, a):
        """the cached match object of the entity in state st (after the body ran), or None"""
        for k, v in st.fields(a["self"]).items():
            if k.startswith("__cache__") and k.endswith("._match") and "Abstract" in k:
                return v
        return None

    def model_terms(self, ex, st, a):
        return dict(text=ex.models.rec_text(st, st.get(a["self"], "record")))


class Overhang(EntityMethod):
    group = 1

    def ensures(self, ex, pre, st, a, result):
        if is_abstract(pre, a["self"]):
            return []
        sm = self.the_match(ex, st, a)
        if sm is None:
            return [("match-consulted", None)]
        s, d = doubled_text(ex, pre, a["self"])
        s0, s1 = span_terms(st, sm, self.group)
        got = ex.models.text(st, result)
        grp = tm.substr(d, s0, tm.sub(s1, s0))
        return [("is-a-Seq", tm.B(isinstance(result, VObj) and result.kind == "Seq")),
                ("overhang-is-text-of-group-%d-up-to-case" % self.group, tm.eq(tm.upper(got), tm.upper(grp))),
                # C18: overhangs are compared with == and used as dict keys by the assembly, so the spelling of the
                # record must not show in them: the reported overhang is case-normalised
                ("overhang-is-case-normalised", tm.eq(got, tm.upper(grp)))]

    def result(self, ex, st, a):
        if is_abstract(st, a["self"]):
            st = st.fork()
            return [(st, ex.models.mk_seq(st, tm.app(self.abstract_name, STR, st.get(a["self"], "ident").t)))]
        s2, sm = match_facts(ex, st, a, "oh")
        s2 = s2.fork()
        s, d = doubled_text(ex, s2, a["self"])
        s0, s1 = span_terms(s2, sm, self.group)
        pos, ln = s2.get(s2.get(sm, "match"), "pos").t, s2.get(s2.get(sm, "match"), "len").t
        s2 = s2.assume(tm.le(pos, s0), tm.le(s0, s1), tm.le(s1, tm.add(pos, ln)))
        r = ex.models.mk_seq(s2, tm.upper(tm.substr(d, s0, tm.sub(s1, s0))))
        return [(s2, r)]


class ModuleOverhangStart(Overhang):
    file, qual, symbase, group, abstract_name = MOD, "AbstractModule.overhang_start", "AbstractModule", 1, "ostart"


class ModuleOverhangEnd(Overhang):
    file, qual, symbase, group, abstract_name = MOD, "AbstractModule.overhang_end", "AbstractModule", 3, "oend"


class VectorOverhangStart(Overhang):
    file, qual, symbase, group, abstract_name = VEC, "AbstractVector.overhang_start", "AbstractVector", 3, "ostart"


class VectorOverhangEnd(Overhang):
    file, qual, symbase, group, abstract_name = VEC, "AbstractVector.overhang_end", "AbstractVector", 1, "oend"


def appended_source(ex, st, rec, before, lo, hi, strand, sid):
    """the feature table of `rec` is `before` plus one feature of type `source` at [lo, hi) on `strand` whose `plasmid`
    qualifier is `sid`.  Stated over the components the table term shows (nothing is asked of the other qualifiers)."""
    from pyvc.models_bio import last_feature, quals_get
    from pyvc.symex import Unsupported
    shown = last_feature(ex.models.feats_term(st, st.get(rec, "features")))
    if shown is None:
        return None      # (the table is not shown as an append of one feature: the clause is skipped, and reported as such)
    b_, t_, lo_, hi_, sd_, q_ = shown
    named = quals_get(q_, "plasmid")
    if named is None:
        if q_.op == "app" and str(q_.args[0]).startswith("quals:"):
            return tm.FALSE      # the appended feature shows its qualifiers, and no `plasmid` entry among them: it names nothing
        return None
    return tm.and_(tm.eq(b_, before), tm.eq(t_, tm.S("source")), tm.eq(lo_, lo), tm.eq(hi_, hi), tm.eq(sd_, strand),
                   tm.eq(named, sid))


class TargetSequence(EntityMethod):
    """module: circ(s, cut1, cut2-cut1) with cut1 = start of group 1, cut2 = end of group 2 (start of group 3);
    vector: the complementary stretch circ(s, cut2, n-(cut2-cut1)).  One generated `source` feature covering the
    whole fragment and naming the plasmid it was cut from; inherited features = slice of the rotated table."""
    is_vector = False
    props = ("C04", "C01", "C02", "C08", "C09", "C17")

    def ensures(self, ex, pre, st, a, result):
        if is_abstract(pre, a["self"]):
            return []
        sm = self.the_match(ex, st, a)
        if sm is None:
            return [("match-consulted", None)]
        rec = pre.get(a["self"], "record")
        s, d = doubled_text(ex, pre, a["self"])
        n = tm.slen(s)
        c1, _ = span_terms(st, sm, 1)
        _, c2 = span_terms(st, sm, 2)
        L = tm.sub(c2, c1)
        out = [("plain-linear-record", tm.B(isinstance(result, VObj) and result.kind == "SeqRecord"))]
        if not self.is_vector:
            out.append(("target-is-stretch-between-the-cuts", tm.eq(ex.models.text(st, result), tm.substr(d, c1, L))))
            lo, hi, flen = tm.I(0), L, L
        else:
            out.append(("target-is-complementary-stretch",
                        tm.eq(ex.models.text(st, result), tm.substr(d, tm.pymod(c2, n), tm.sub(n, L)))))
            lo, hi, flen = L, n, tm.sub(n, L)
        i = tm.pymod(tm.sub(0, c1), n)
        f0 = ex.models.feats_term(pre, pre.get(rec, "features"))
        rotated = tm.ite(tm.eq(i, 0), f0, tm.app("feats_rot", FEATS, f0, i, n))
        # C09 asks for one generated `source` feature per fragment that covers it and *names* the plasmid (read here:
        # its `plasmid` qualifier, as the bounded oracle does); what else its qualifiers say is left open
        out.append(("features-inherited-plus-one-source-feature",
                    appended_source(ex, st, result, tm.app("feats_slice", FEATS, rotated, lo, hi, n),
                                    tm.I(0), flen, tm.I(0), pre.get(rec, "id").t)))
        out.append(("carries-record-id", tm.eq(st.get(result, "id").t, pre.get(rec, "id").t)))
        # ownership (the `fresh` ghost of the design): the fragment handed out is a new record, not one the entity
        # keeps (add_as_source appends to its argument in place: a kept fragment would grow with every call)
        kept = [k_ for k_, v_ in st.fields(a["self"]).items() if v_ is result]
        out.append(("fragment-is-a-fresh-record-not-kept-by-the-entity", tm.B(isinstance(result, VObj) and not kept)))
        # frame (C07): the wrapped plasmid is left as it was -- in particular when the rotation to the cut is by a
        # multiple of the length and hands back the plasmid itself
        out.append(("wrapped-record-left-untouched", tm.and_(
            tm.B(st.get(a["self"], "record") is rec and result is not rec),
            tm.eq(ex.models.feats_term(st, st.get(rec, "features")), f0),
            tm.eq(ex.models.rec_text(st, rec), s))))
        return out

    def result(self, ex, st, a):
        if is_abstract(st, a["self"]):
            st = st.fork()
            ident = st.get(a["self"], "ident").t
            r = ex.models.mk_record(st, "SeqRecord", tm.app("frag", STR, ident))
            st.set_inplace(r, "id", VT(tm.app("eid", STR, ident)))
            st.set_inplace(r, "name", VT(tm.app("ename", STR, ident)))
            st.set_inplace(r, "description", VT(tm.app("edesc", STR, ident)))
            st.set_inplace(r, "features", VT(tm.app("efeats", FEATS, ident), "list"))
            st.set_inplace(r, "dbxrefs", VT(tm.app("dbx_empty", "Dbx"), "list"))
            d = VDict(__import__("pyvc.values", fromlist=["new_oid"]).new_oid())
            st.set_inplace(d, "items", {})
            st.set_inplace(r, "annotations", d)
            la = VObj("LetAnn")
            st.set_inplace(la, "rep", VT(tm.app("eletan", STR, ident), "list"))
            st.set_inplace(r, "letter_annotations", la)
            st.set_inplace(r, "fresh", VT(tm.TRUE))
            return [(st, r)]
        s2, sm = match_facts(ex, st, a, "ts")
        s2 = s2.fork()
        r = ex.models.sym_record(s2, "SeqRecord", "target!%d" % next(tm._fresh), ann_keys=())
        c1, e1 = span_terms(s2, sm, 1)
        b2, c2 = span_terms(s2, sm, 2)
        pos, ln = s2.get(s2.get(sm, "match"), "pos").t, s2.get(s2.get(sm, "match"), "len").t
        s2 = s2.assume(tm.le(pos, c1), tm.le(c1, e1), tm.le(e1, tm.add(pos, ln)), tm.le(pos, b2), tm.le(b2, c2),
                       tm.le(c2, tm.add(pos, ln)))
        return [(s2, r)]


class ModuleTarget(TargetSequence):
    file, qual, symbase, is_vector = MOD, "AbstractModule.target_sequence", "AbstractModule", False


class VectorTarget(TargetSequence):
    file, qual, symbase, is_vector = VEC, "AbstractVector.target_sequence", "AbstractVector", True


class VectorPlaceholder(EntityMethod):
    """the placeholder is a contiguous stretch of the plasmid: from the first cut to the second, i.e. the text of
    groups 1+2 read on the circle -- the complement of the target"""
    file, qual, symbase = VEC, "AbstractVector.placeholder_sequence", "AbstractVector"
    props = ("C04", "C02")

    def ensures(self, ex, pre, st, a, result):
        sm = self.the_match(ex, st, a)
        if sm is None:
            return [("match-consulted", None)]
        s, d = doubled_text(ex, pre, a["self"])
        c1, _ = span_terms(st, sm, 1)
        _, c2 = span_terms(st, sm, 2)
        # letters are compared up to case: the leading overhang is reported case-normalised (C18).  Stated
        # piecewise (overhang part up to case, body part verbatim, total length) so that no homomorphism law of
        # str.upper is needed; contiguity = the two pieces are adjacent in the plasmid (groups 1 and 2 are).
        _, e1 = span_terms(st, sm, 1)
        b2, _ = span_terms(st, sm, 2)
        res = ex.models.text(st, result)
        k1 = tm.sub(e1, c1)
        L = tm.sub(c2, c1)
        return [("placeholder-starts-with-the-overhang-at-the-first-cut",
                 tm.eq(tm.upper(tm.substr(res, 0, k1)), tm.upper(tm.substr(d, c1, k1)))),
                ("placeholder-continues-with-the-body-up-to-the-second-cut",
                 tm.eq(tm.substr(res, k1, tm.sub(L, k1)), tm.substr(d, e1, tm.sub(c2, e1)))),
                ("placeholder-length-is-the-distance-between-the-cuts", tm.eq(tm.slen(res), L)),
                ("overhang-and-body-are-adjacent", tm.eq(b2, e1))]

    def result(self, ex, st, a):
        s2, sm = match_facts(ex, st, a, "ph")
        s2 = s2.fork()
        r = ex.models.sym_record(s2, "SeqRecord", "placeholder!%d" % next(tm._fresh), ann_keys=())
        return [(s2, r)]

    def model_terms(self, ex, st, a):
        return dict(text=ex.models.rec_text(st, st.get(a["self"], "record")))


class AddAsSource(Contract):
    """one feature [0, len(dst)) of type `source` whose qualifiers name src_record.id is appended to dst"""
    file, qual = UTL, "add_as_source"
    props = ("C09", "C08")

    variants = ("whole-record", "explicit-location")

    def setup(self, ex, st, variant):
        a = dict(src_record=ex.models.sym_record(st, "CircularRecord", "src"),
                 dst_record=ex.models.sym_record(st, "SeqRecord", "dst", ann_keys=()))
        if variant == "explicit-location":
            from pyvc.models_bio import sym_part
            a["location"] = sym_part(st, "loc")
        return a

    def assumes(self, ex, st, a):
        # type invariant of Bio.SeqFeature.SimpleLocation (its constructor refuses end < start)
        loc = a.get("location")
        if isinstance(loc, VObj) and loc.kind == "FeatureLocation":
            return [tm.le(st.get(loc, "start").t, st.get(loc, "end").t)]
        return []

    @staticmethod
    def _where(st, a, n):
        """(start, end, strand) of the generated feature: the explicit location when one is passed, else [0, len(dst))"""
        loc = a.get("location")
        if isinstance(loc, VObj) and loc.kind == "FeatureLocation":
            # `location or FeatureLocation(0, len(dst))`: a location object is falsy when it is empty (its __len__ is 0)
            lo, hi, sd = st.get(loc, "start").t, st.get(loc, "end").t, st.get(loc, "strand").t
            given = tm.ne(tm.sub(hi, lo), 0)
            return tm.ite(given, lo, tm.I(0)), tm.ite(given, hi, n), tm.ite(given, sd, tm.I(0))
        if loc is None or isinstance(loc, VNone):
            return tm.I(0), n, tm.I(0)
        from pyvc.symex import Unsupported
        raise Unsupported("add_as_source with a location that is neither None nor a FeatureLocation")

    def ensures(self, ex, pre, st, a, result):
        dst, src = a["dst_record"], a["src_record"]
        n = tm.slen(ex.models.rec_text(pre, dst))
        f0 = ex.models.feats_term(pre, pre.get(dst, "features"))
        sid = pre.get(src, "id").t
        lo, hi, strand = self._where(pre, a, n)
        return [("returns-dst", tm.B(result is dst)),
                ("appends-one-source-feature-covering-dst", appended_source(ex, st, dst, f0, lo, hi, strand, sid)),
                ("text-untouched", tm.eq(ex.models.rec_text(st, dst), ex.models.rec_text(pre, dst))),
                # (when the caller passes the same object as source and destination, the append above is all that happens to it)
                ("src-untouched", tm.B(src is dst or st.fields(src) == pre.fields(src)))]

    def result(self, ex, st, a):
        dst, src = a["dst_record"], a["src_record"]
        n = tm.slen(ex.models.rec_text(st, dst))
        f0 = ex.models.feats_term(st, st.get(dst, "features"))
        sid = st.get(src, "id").t
        lo, hi, strand = self._where(st, a, n)
        from pyvc.models_bio import quals_naming
        feat = tm.app("feat", "Feat", tm.S("source"), lo, hi, strand, quals_naming(sid))
        st = st.set(dst, "features", VT(tm.app("feats_snoc", FEATS, f0, feat), "list"))
        return [(st, dst)]

    def model_terms(self, ex, st, a):
        return dict(dst=ex.models.rec_text(st, a["dst_record"]))


CONTRACTS = [ModuleMatch(), VectorMatch(), ModuleOverhangStart(), ModuleOverhangEnd(), VectorOverhangStart(),
             VectorOverhangEnd(), ModuleTarget(), VectorTarget(), VectorPlaceholder(), AddAsSource()]


# ------------------------------------------------------------------------------------------------ cutter_check / __new__
from pyvc.values import NOTIMPL  # noqa: E402
from pyvc import models_moclo as M  # noqa: E402

UTILS = "moclo/moclo/core/_utils.py"


class CutterCheck(Contract):
    """a class can be instantiated only with a declared, non-blunt, known cutter"""
    file, qual = UTILS, "cutter_check"
    props = ("C17", "C05")
    variants = ("declared", "not-declared")
    inline_at_call_sites = True

    def setup(self, ex, st, variant):
        if variant == "declared":
            st2, c = M.mk_cutter(st, tm.V("enzyme", INT))
            st.heap.update(st2.heap)
        else:
            c = NOTIMPL
        return dict(cutter=c, name=VT(tm.V("name", STR)))

    def raises(self, ex, st, a):
        c = a["cutter"]
        if not isinstance(c, VObj):
            return [("NotImplementedError", tm.TRUE, None)]
        e = st.get(c, "ident").t
        return [("ValueError", tm.or_(tm.app("is_blunt", BOOL, e), tm.app("is_unknown", BOOL, e)), None)]

    def ensures(self, ex, pre, st, a, result):
        return [("returns-nothing", tm.B(isinstance(result, VNone)))]

    def result(self, ex, st, a):
        return [(st, NONE)]


class _New(Contract):
    """__new__: the cutter is checked before anything is built; the new object is an instance of the class asked for"""
    props = ("C17", "C05")
    variants = ("declared", "not-declared")
    inline_at_call_sites = True
    base = None

    def setup(self, ex, st, variant):
        cls = ex.models.sym_class(self.base, tm.V("cls", INT))
        if variant == "declared":
            st2, c = M.mk_cutter(st, tm.V("enzyme", INT))
            st.heap.update(st2.heap)
        else:
            c = NOTIMPL
        cls.attrs_override = {"cutter": c}
        self.cutter = c
        return dict(cls=cls, __varargs__=[VT(tm.V("record_arg", INT))])

    def raises(self, ex, st, a):
        c = self.cutter
        if not isinstance(c, VObj):
            return [("NotImplementedError", tm.TRUE, None)]
        e = st.get(c, "ident").t
        return [("ValueError", tm.or_(tm.app("is_blunt", BOOL, e), tm.app("is_unknown", BOOL, e)), None)]

    def ensures(self, ex, pre, st, a, result):
        return [("a-new-instance-of-the-class", tm.B(isinstance(result, VObj) and result.kind == a["cls"].name))]

    def result(self, ex, st, a):
        return [(st, VObj(a["cls"].name))]


class ModuleNew(_New):
    file, qual, base = "moclo/moclo/core/modules.py", "AbstractModule.__new__", "AbstractModule"


class VectorNew(_New):
    file, qual, base = "moclo/moclo/core/vectors.py", "AbstractVector.__new__", "AbstractVector"


class PartNew(_New):
    file, qual, base = "moclo/moclo/core/parts.py", "AbstractPart.__new__", "AbstractPart"


CONTRACTS += [CutterCheck(), ModuleNew(), VectorNew(), PartNew()]
