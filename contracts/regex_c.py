# coding: utf-8
"""Sidecar contracts for moclo/moclo/regex.py (nothing in /repo is edited).

Postconditions are taken from the property statements (C16, C02):
* group(i) is *exactly the text that group matched*, i.e. data'[s0:s1] where data' is the record text
  written twice (the text the regular expression actually ran on when the search was circular);
* search returns the *leftmost* start in [pos, min(n, endpos)) at which the pattern matches the one-turn
  window, a match never covers more than one turn, and never passes the end of a linear target.
"""
from __future__ import annotations

import ast

from pyvc import term as tm
from pyvc.term import INT, BOOL, STR
from pyvc.values import VT, VObj, VNone, NONE, VTuple, VList
from pyvc.contract import Contract, LoopSpec
from pyvc.models import re_window, rematch_span_terms, re_at, shape3_facts

FILE = "moclo/moclo/regex.py"

# IUPAC table of the property statement (nucleotide sets), independent of the code's _lettermap
IUPAC = {
    "A": "A", "C": "C", "G": "G", "T": "T",
    "R": "AG", "Y": "CT", "S": "CG", "W": "AT", "K": "GT", "M": "AC",
    "B": "CGT", "D": "AGT", "H": "ACT", "V": "ACG", "N": "ACGT",
}


def mk_rec(ex, st, kind, prefix):
    if kind == "Seq":
        return ex.models.mk_seq(st, tm.V(prefix + ".seq", STR))
    return ex.models.sym_record(st, kind, prefix)


def mk_match(ex, st, prefix):
    """an arbitrary re match object: pattern, window text, start position, length are symbolic"""
    m = VObj("ReMatch")
    st.set_inplace(m, "pat", VT(tm.V(prefix + ".pat", STR)))
    st.set_inplace(m, "w", VT(tm.V(prefix + ".w", STR)))
    st.set_inplace(m, "pos", VT(tm.V(prefix + ".start", INT)))
    st.set_inplace(m, "len", VT(tm.V(prefix + ".len", INT)))
    return m


def inv_seqmatch(ex, st, sm, doubled=None):
    """INV_SeqMatch: 0 <= start < n, the match is at most one turn long, and stays inside a linear target"""
    m = st.get(sm, "match")
    n = tm.slen(ex.models.text(st, st.get(sm, "rec")))
    pos, ln = st.get(m, "pos").t, st.get(m, "len").t
    inv = [tm.le(0, pos), tm.lt(pos, n), tm.le(0, ln), tm.le(ln, n)]
    if doubled is not None:
        inv.append(tm.implies(tm.not_(doubled), tm.le(tm.add(pos, ln), n)))
    return tm.and_(*inv)


def span_at(ex, st, sm, i):
    m = st.get(sm, "match")
    s0, s1 = rematch_span_terms(st, m, i)
    ln = st.get(m, "len").t
    pos = st.get(m, "pos").t
    re1 = tm.and_(tm.le(pos, s0), tm.le(s0, s1), tm.le(s1, tm.add(pos, ln)),
                  tm.implies(tm.eq(tm.lift(i), 0), tm.and_(tm.eq(s0, pos), tm.eq(s1, tm.add(pos, ln)))))
    return s0, s1, re1


class Group(Contract):
    file, qual = FILE, "SeqMatch.group"
    props = ("C16", "C02", "C04", "C12")
    variants = ("Seq", "SeqRecord", "CircularRecord")

    def setup(self, ex, st, variant):
        sm = VObj("SeqMatch")
        st.set_inplace(sm, "match", mk_match(ex, st, "m"))
        st.set_inplace(sm, "rec", mk_rec(ex, st, variant, "rec"))
        st.set_inplace(sm, "shift", VT(tm.I(0)))
        return dict(self=sm, index=VT(tm.V("index", INT)))

    def requires(self, ex, st, a):
        return [("inv_seqmatch", inv_seqmatch(ex, st, a["self"]))]

    def assumes(self, ex, st, a):
        # D-RE (RE1): the span of a group lies inside the match
        s0, s1, re1 = span_at(ex, st, a["self"], a["index"].t)
        m = st.get(a["self"], "match")
        return [re1, shape3_facts(st.get(m, "pat").t, st.get(m, "w").t)]

    def ensures(self, ex, pre, st, a, result):
        s0, s1, _ = span_at(ex, pre, a["self"], a["index"].t)
        rec = ex.models.text(pre, pre.get(a["self"], "rec"))
        out = [("group-text-is-matched-text",
                tm.eq(ex.models.text(st, result), tm.substr(tm.concat(rec, rec), s0, tm.sub(s1, s0))))]
        return out

    def result(self, ex, st, a):
        st = st.fork()
        rec = st.get(a["self"], "rec")
        if rec.kind == "Seq":
            r = ex.models.mk_seq(st, tm.fresh("group", STR))
        else:
            r = ex.models.sym_record(st, "SeqRecord", "group!%d" % next(tm._fresh))
        return [(st, r)]

    def model_terms(self, ex, st, a):
        s0, s1, _ = span_at(ex, st, a["self"], a["index"].t)
        m = st.get(a["self"], "match")
        return dict(rec=ex.models.text(st, st.get(a["self"], "rec")), s0=s0, s1=s1, index=a["index"].t,
                    start=st.get(m, "pos").t, length=st.get(m, "len").t)


class SpanLike(Contract):
    """start(), end(), span(i): pass-through of the match object"""
    file = FILE
    props = ("C16",)
    which = "span"

    def setup(self, ex, st, variant):
        sm = VObj("SeqMatch")
        st.set_inplace(sm, "match", mk_match(ex, st, "m"))
        st.set_inplace(sm, "rec", mk_rec(ex, st, "Seq", "rec"))
        a = dict(self=sm)
        if self.which == "span":
            a["index"] = VT(tm.V("index", INT))
        return a

    def ensures(self, ex, pre, st, a, result):
        i = a["index"].t if "index" in a else tm.I(0)
        s0, s1 = rematch_span_terms(pre, pre.get(a["self"], "match"), i)
        if self.which == "span":
            return [("span0", tm.eq(result.items[0].t, s0)), ("span1", tm.eq(result.items[1].t, s1))]
        if self.which == "start":
            return [("start", tm.eq(result.t, s0))]
        return [("end", tm.eq(result.t, s1))]

    def result(self, ex, st, a):
        i = a["index"].t if "index" in a else tm.I(0)
        s0, s1 = rematch_span_terms(st, st.get(a["self"], "match"), i)
        m = st.get(a["self"], "match")
        ln, pos = st.get(m, "len").t, st.get(m, "pos").t
        st = st.assume(tm.le(pos, s0), tm.le(s0, s1), tm.le(s1, tm.add(pos, ln)),
                       tm.implies(tm.eq(i, 0), tm.and_(tm.eq(s0, pos), tm.eq(s1, tm.add(pos, ln)))),
                       shape3_facts(st.get(m, "pat").t, st.get(m, "w").t))
        if self.which == "span":
            return [(st, VTuple([VT(s0), VT(s1)]))]
        return [(st, VT(s0 if self.which == "start" else s1))]


class Span(SpanLike):
    qual, which = "SeqMatch.span", "span"


class Start(SpanLike):
    qual, which = "SeqMatch.start", "start"


class End(SpanLike):
    qual, which = "SeqMatch.end", "end"


# ------------------------------------------------------------------------------------------------ search
class SearchLoop(LoopSpec):
    kind, iterates = ast.For, "range"
    def invariant(self, ex, st, ctx):
        a = ctx["args"]
        j = tm.V("j", INT)
        return [("no-match-before-k", tm.forall_range(j, a["pos"].t, ctx["k"], tm.not_(
            re_at(a["pat"], a["data"](st), j, a["n"]))))]


class Search(Contract):
    file, qual = FILE, "DNARegex.search"
    props = ("C16", "C02", "C17")
    variants = ("Seq", "SeqRecord", "CircularRecord", "other")

    def setup(self, ex, st, variant):
        self_ = VObj("DNARegex")
        rx = VObj("RePattern")
        st.set_inplace(rx, "pattern", VT(tm.V("tpat", STR)))
        st.set_inplace(self_, "regex", rx)
        st.set_inplace(self_, "pattern", VT(tm.V("pattern", STR)))
        if variant == "other":
            string = VT(tm.V("string", STR))  # a plain str is not accepted
        else:
            string = mk_rec(ex, st, variant, "string")
        a = dict(self=self_, string=string, pos=VT(tm.V("pos", INT)), endpos=VT(tm.V("endpos", INT)),
                 linear=VT(tm.V("linear", BOOL)))
        self._bind_loop(ex, a, variant)
        return a

    def _terms(self, ex, st, a):
        string = a["string"]
        text = ex.models.text(st, string)
        n = tm.slen(text)
        circ_kind = isinstance(string, VObj) and string.kind == "CircularRecord"
        doubled = tm.TRUE if circ_kind else tm.not_(a["linear"].t)
        data = tm.ite(doubled, tm.concat(text, text), text)
        pat = st.get(st.get(a["self"], "regex"), "pattern").t
        H = tm.imin(n, a["endpos"].t)
        return text, n, doubled, data, pat, H

    def _bind_loop(self, ex, a, variant):
        if variant == "other":
            self.loops = {}
            return
        con = self
        spec = SearchLoop()
        orig = spec.invariant

        def invariant(ex_, st, ctx):
            text, n, doubled, data, pat, H = con._terms(ex_, st, a)
            ctx = dict(ctx, args=dict(pos=a["pos"], pat=pat, n=n, data=lambda s: _data_term(ex_, s, a, doubled, text)))
            return orig(ex_, st, ctx)

        spec.invariant = invariant
        self.loops = {0: spec}

    def requires(self, ex, st, a):
        if not isinstance(a["string"], VObj):
            return []
        return [("pos-nonnegative", tm.le(0, a["pos"].t))]

    def raises(self, ex, st, a):
        if not isinstance(a["string"], VObj) or a["string"].kind not in ("Seq", "SeqRecord", "CircularRecord"):
            return [("TypeError", tm.TRUE, None)]
        return []

    def _nomatch_before(self, ex, st, a, upto):
        text, n, doubled, data, pat, H = self._terms(ex, st, a)
        j = tm.V("j", INT)
        d = _data_term(ex, st, a, doubled, text)
        return tm.forall_range(j, a["pos"].t, upto, tm.not_(re_at(pat, d, j, n)))

    def ensures(self, ex, pre, st, a, result):
        text, n, doubled, data, pat, H = self._terms(ex, pre, a)
        if isinstance(result, VNone):
            return [("none-iff-no-start-matches", self._nomatch_before(ex, pre, a, H))]
        m = st.get(result, "match")
        start, ln = st.get(m, "pos").t, st.get(m, "len").t
        d = _data_term(ex, pre, a, doubled, text)
        w = re_window(d, start, tm.add(start, n))
        return [
            ("start-in-range", tm.and_(tm.le(a["pos"].t, start), tm.lt(start, H))),
            ("leftmost", self._nomatch_before(ex, pre, a, start)),
            ("matches-at-start", tm.and_(re_at(pat, d, start, n), tm.app("re_m", BOOL, pat, w))),
            ("match-object", tm.and_(tm.eq(st.get(m, "pat").t, pat), tm.eq(st.get(m, "w").t, w))),
            ("at-most-one-turn", tm.and_(tm.le(0, ln), tm.le(ln, n))),
            ("length-is-the-match-length", tm.eq(ln, tm.app("re_len", INT, pat, w))),
            ("linear-never-wraps", tm.implies(tm.not_(doubled), tm.le(tm.add(start, ln), n))),
            ("rec-is-target", tm.B(st.get(result, "rec") is a["string"])),
        ]

    def result(self, ex, st, a):
        s1 = st.fork()
        sm = VObj("SeqMatch")
        m = VObj("ReMatch")
        k = next(tm._fresh)
        s1.set_inplace(m, "pat", VT(tm.V("sm%d.pat" % k, STR)))
        s1.set_inplace(m, "w", VT(tm.V("sm%d.w" % k, STR)))
        s1.set_inplace(m, "pos", VT(tm.V("sm%d.start" % k, INT)))
        s1.set_inplace(m, "len", VT(tm.V("sm%d.len" % k, INT)))
        s1.set_inplace(sm, "match", m)
        s1.set_inplace(sm, "rec", a["string"])
        s1.set_inplace(sm, "shift", VT(tm.I(0)))
        # CPython fact: no string is longer than sys.maxsize (= six.MAXSIZE, the default endpos)
        text = ex.models.text(st, a["string"])
        fact = tm.le(tm.slen(text), 2 ** 63 - 1)
        return [(st.assume(fact), NONE), (s1.assume(fact), sm)]

    def model_terms(self, ex, st, a):
        if not isinstance(a["string"], VObj):
            return {}
        text, n, doubled, data, pat, H = self._terms(ex, st, a)
        return dict(text=text, pos=a["pos"].t, endpos=a["endpos"].t, linear=a["linear"].t, tpat=pat)


def _data_term(ex, st, a, doubled, text):
    """the text the regular expression runs on, as the code builds it (data, possibly doubled)"""
    if tm.is_const(doubled):
        return tm.concat(text, text) if tm.cval(doubled) else text
    return tm.ite(doubled, tm.concat(text, text), text)


# ------------------------------------------------------------------------------------------------ _transcribe
def tr1_term(c):
    """spec: regex fragment for one pattern letter, from the IUPAC table of the property statement"""
    r = c
    for code in sorted(IUPAC, reverse=True):
        if code in "ACGT":
            continue
        letters = IUPAC[code] + ("N" if code == "N" else "")
        r = tm.ite(tm.eq(c, code), tm.S("[%s]" % letters), r)
    return r


class TranscribeLoop(LoopSpec):
    kind = ast.For
    def havoc(self, ex, st, ctx, modified):
        st = LoopSpec.havoc(self, ex, st, ctx, modified)
        st.env["target"] = ex.models.mk_symlist(st, tm.fresh("target", tm.seq_sort(STR)))
        return st

    def invariant(self, ex, st, ctx):
        ex.models.need_joinall()
        need_trs(ex.models)
        pattern = st.env["pattern"].t
        tgt = ex.models.list_term(st, st.env["target"], STR)
        return [("joined-prefix", tm.eq(tm.app("joinall", STR, tgt),
                                        tm.concat("(?i)", tm.app("trs", STR, tm.substr(pattern, 0, ctx["k"])))))]

    def hints(self, ex, st, ctx):
        # definitional unfoldings of the two recursive spec functions at the terms of this step
        pattern = st.env["pattern"].t
        tgt = ex.models.list_term(st, st.env["target"], STR)
        return [ex.models.unfold("joinall", tgt), ex.models.unfold("trs", tm.substr(pattern, 0, ctx["k"]))]


def need_trs(models):
    """trs(s) = letter-wise translation of s by the IUPAC table of the statement (snoc recursion)"""
    def body(s):
        n = tm.slen(s)
        return tm.ite(tm.eq(n, 0), tm.S(""), tm.concat(tm.app("trs", STR, tm.substr(s, 0, tm.sub(n, 1))),
                                                        tr1_term(tm.substr(s, tm.sub(n, 1), 1))))

    models.define_rec("trs", [("s", STR)], STR, body)


class Transcribe(Contract):
    file, qual = FILE, "DNARegex._transcribe"
    props = ("C16", "C18")
    loops = {0: TranscribeLoop()}

    def setup(self, ex, st, variant):
        return dict(cls=ex.module_name(ex.repo.module(FILE), "DNARegex"), pattern=VT(tm.V("pattern", STR)))

    def ensures(self, ex, pre, st, a, result):
        need_trs(ex.models)
        return [("case-flag-and-letterwise-translation",
                 tm.eq(result.t, tm.concat("(?i)", tm.app("trs", STR, a["pattern"].t))))]

    def result(self, ex, st, a):
        return [(st, VT(tm.fresh("transcribed", STR)))]

    def model_terms(self, ex, st, a):
        return dict(pattern=a["pattern"].t)


class RegexInit(Contract):
    file, qual = FILE, "DNARegex.__init__"
    props = ("C16",)

    def setup(self, ex, st, variant):
        return dict(self=VObj("DNARegex"), pattern=VT(tm.V("pattern", STR)))

    def ensures(self, ex, pre, st, a, result):
        need_trs(ex.models)
        rx = st.get(a["self"], "regex")
        return [("pattern-stored", tm.eq(st.get(a["self"], "pattern").t, a["pattern"].t)),
                ("regex-compiled-from-transcription",
                 tm.eq(st.get(rx, "pattern").t, tm.concat("(?i)", tm.app("trs", STR, a["pattern"].t))))]

    def result(self, ex, st, a):
        st = st.fork()
        rx = VObj("RePattern")
        st.set_inplace(rx, "pattern", VT(tm.fresh("tpat", STR)))
        st.set_inplace(a["self"], "regex", rx)
        st.set_inplace(a["self"], "pattern", a["pattern"])
        return [(st, NONE)]


CONTRACTS = [Group(), Span(), Start(), End(), Search(), Transcribe(), RegexInit()]


class SeqMatchInit(Contract):
    """a match object keeps the underlying match, the searched record and the shift it is given"""
    file, qual = FILE, "SeqMatch.__init__"
    props = ("C16",)
    inline_at_call_sites = True
    variants = ("with-shift", "default-shift")

    def setup(self, ex, st, variant):
        self.variant = variant
        a = dict(self=VObj("SeqMatch"), match=mk_match(ex, st, "m"), rec=mk_rec(ex, st, "CircularRecord", "rec"))
        if variant == "with-shift":
            a["shift"] = VT(tm.V("shift", INT))
        return a

    def ensures(self, ex, pre, st, a, result):
        s = a["self"]
        sh = st.get(s, "shift")
        return [("keeps-the-match", tm.B(st.get(s, "match") is a["match"])), ("keeps-the-record", tm.B(st.get(s, "rec") is a["rec"])),
                ("keeps-the-shift", tm.eq(sh.t, a["shift"].t if self.variant == "with-shift" else 0) if isinstance(sh, VT) else tm.FALSE)]

    def result(self, ex, st, a):
        return [(st, NONE)]


CONTRACTS.append(SeqMatchInit())
