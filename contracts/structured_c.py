# coding: utf-8
"""Sidecar contracts for moclo/moclo/core/_structured.py.

C06 ("typing verdicts do not depend on what was typed before") is the ghost invariant INV_cache on the class
attribute `_regex` (pyvc.models_moclo): every own, non-None entry is the regex of *that* class.  `_get_regex`
must preserve it and return the pattern of the class it was asked for, whatever the cache holds for other
classes -- in particular for its ancestors."""
from __future__ import annotations

from pyvc import term as tm
from pyvc.term import INT, BOOL, STR
from pyvc.values import VT, VObj, VNone, NONE, VTuple, VList, VDict, VClass
from pyvc.contract import Contract, LoopSpec
from pyvc.models_moclo import tr_pattern
from contracts import regex_c
from contracts.record_c import inv_crec, ann_items

FILE = "moclo/moclo/core/_structured.py"


class GetRegex(Contract):
    file, qual = FILE, "StructuredRecord._get_regex"
    props = ("C06", "C05", "C17")

    def setup(self, ex, st, variant):
        ex.models.init_cache(st)
        return dict(cls=ex.models.sym_class("StructuredRecord", tm.V("cls", INT)))

    def requires(self, ex, st, a):
        return [("inv_cache:" + l, t) for (l, t) in ex.models.inv_cache(st)] + [
            ("not-the-abstract-base", tm.ne(a["cls"].sym, tm.app("base_cls", INT)))]

    def cover_hint(self, ex, st, a):
        return cache_cover_hint(ex, st)

    def ensures(self, ex, pre, st, a, result):
        c = a["cls"].sym
        out = []
        if not (isinstance(result, VObj) and result.kind == "DNARegex"):
            return [("returns-a-regex", None)]
        out.append(("pattern-is-the-structure-of-the-asked-class",
                    tm.eq(st.get(result, "pattern").t, tm.app("structure", STR, c))))
        out.append(("compiled-from-that-pattern",
                    tm.eq(st.get(st.get(result, "regex"), "pattern").t, tr_pattern(st.get(result, "pattern").t))))
        out += [("inv_cache-preserved:" + l, t) for (l, t) in ex.models.inv_cache(st)]
        # frame: only the asked class's own entry may be written
        has0, val0 = ex.models.cache_arrays(pre)
        has1, val1 = ex.models.cache_arrays(st)
        d = tm.V("d_", INT)
        out.append(("assigns-only-own-entry", tm.forall([d], tm.implies(tm.ne(d, c), tm.and_(
            tm.eq(tm.select(has1, d), tm.select(has0, d)), tm.eq(tm.select(val1, d), tm.select(val0, d)))))))
        return out

    def result(self, ex, st, a):
        st = st.fork()
        ex.models.init_cache(st, prefix="cache!%d" % next(tm._fresh))
        ident = tm.fresh("rx", INT)
        s2, o = ex.models.regex_obj(st.assume(tm.ne(ident, 0)), ident)
        return [(s2, o)]

    def model_terms(self, ex, st, a):
        has, val = ex.models.cache_arrays(st)
        c = a["cls"].sym
        owner, inh = ex.models.owner(st, c)
        return dict(cls=c, has_own=tm.select(has, c), owner=owner, structure_cls=tm.app("structure", STR, c),
                    structure_owner=tm.app("structure", STR, owner),
                    cached_pattern=tm.app("rx_pattern", STR, tm.select(val, owner)))


def entity_requires(ex, st, e):
    rec = st.get(e, "record")
    out = [("inv_cache:" + l, t) for (l, t) in ex.models.inv_cache(st)]
    out.append(("not-the-abstract-base", tm.ne(st.get(e, "__class__").sym, tm.app("base_cls", INT))))
    if st.get(e, "__class__").symbase != "StructuredRecord":
        # inv_structure: the class's pattern has three adjacent capture groups (checked for every kit literal and
        # for the derived patterns of every qualifying enzyme: C04 shape obligations)
        out.append(("inv_structure:three-adjacent-groups",
                    tm.app("shape3", BOOL, tr_pattern(tm.app("structure", STR, st.get(e, "__class__").sym)))))
    if rec.kind == "CircularRecord":
        out += inv_crec(ex, st, rec)
    return out


def cache_cover_hint(ex, st, rec=None):
    """a witness for the vacuity cover: the cache of a fresh interpreter (only StructuredRecord._regex = None)"""
    from pyvc.models_moclo import HAS, VAL
    has, val = ex.models.cache_arrays(st)
    base = tm.app("base_cls", INT)
    out = [tm.eq(has, tm.store(tm.constarr(HAS, tm.FALSE), base, tm.TRUE)), tm.eq(val, tm.constarr(VAL, 0))]
    if rec is not None and "topology" in ann_items(st, rec):
        out.append(tm.eq(ann_items(st, rec)["topology"].t, "circular"))
    return out


def match_terms(ex, st, e):
    """(text, n, doubled, pat) of the search a StructuredRecord runs on its record"""
    rec = st.get(e, "record")
    text = ex.models.rec_text(st, rec)
    items = ann_items(st, rec)
    if "topology" in items:
        linear = tm.ne(tm.lower(items["topology"].t), "circular")
    else:
        linear = tm.FALSE
    doubled = tm.TRUE if rec.kind == "CircularRecord" else tm.not_(linear)
    pat = tr_pattern(tm.app("structure", STR, st.get(e, "__class__").sym))
    return text, tm.slen(text), doubled, pat, linear


def lm(pat, d, n):
    """spec function: the leftmost start in [0,n) at which the pattern matches the one-turn window"""
    return tm.app("lmstart", INT, pat, d, n)


def lm_axiom(pat, d, n):
    """least-number principle (trusted): if some start matches, lmstart is the least one"""
    from pyvc.models import re_at
    j, jj = tm.V("j", INT), tm.V("jj", INT)
    some = tm.exists_range(j, 0, n, re_at(pat, d, j, n))
    l = lm(pat, d, n)
    return tm.implies(some, tm.and_(tm.le(0, l), tm.lt(l, n), re_at(pat, d, l, n),
                                    tm.forall_range(jj, 0, l, tm.not_(re_at(pat, d, jj, n)))))


def entity_terms(ex, st, e):
    """closed forms of everything a structured record reports, as functions of (class, record) only"""
    from pyvc.models import re_window
    text, n, doubled, pat, linear = match_terms(ex, st, e)
    d = regex_c._data_term(ex, st, None, doubled, text)
    l = lm(pat, d, n)
    w = re_window(d, l, tm.add(l, n))
    ln = tm.app("re_len", INT, pat, w)

    def span(i):
        return (tm.add(l, tm.app("re_s0", INT, pat, w, tm.I(i))), tm.add(l, tm.app("re_s1", INT, pat, w, tm.I(i))))

    return dict(text=text, n=n, d=d, dd=tm.concat(text, text), pat=pat, lm=l, w=w, len=ln, span=span,
                axiom=lm_axiom(pat, d, n))


class BaseMatch(Contract):
    """the cached match of a structured record: the result of searching the record (circularly unless it
    declares another topology) for the structure of *its own class*; InvalidSequence exactly when no start
    position matches.  A function of (class, record) only."""
    file, qual = FILE, "StructuredRecord._match"
    props = ("C06", "C17", "C02")
    variants = ("CircularRecord", "SeqRecord-topology", "SeqRecord-plain")
    symbase = "StructuredRecord"

    def setup(self, ex, st, variant):
        ex.models.init_cache(st)
        if variant == "CircularRecord":
            rec = ex.models.sym_record(st, "CircularRecord", "record", ann_keys=("topology",))
        elif variant == "SeqRecord-topology":
            rec = ex.models.sym_record(st, "SeqRecord", "record", ann_keys=("topology",))
        else:
            rec = ex.models.sym_record(st, "SeqRecord", "record", ann_keys=())
        return dict(self=ex.models.sym_entity(st, self.symbase, "self", record=rec))

    def requires(self, ex, st, a):
        return entity_requires(ex, st, a["self"])

    def cover_hint(self, ex, st, a):
        return cache_cover_hint(ex, st, st.get(a["self"], "record"))

    def _no_match(self, ex, st, a, upto):
        text, n, doubled, pat, linear = match_terms(ex, st, a["self"])
        j = tm.V("j", INT)
        d = regex_c._data_term(ex, st, None, doubled, text)
        from pyvc.models import re_at
        return tm.forall_range(j, 0, upto, tm.not_(re_at(pat, d, j, n)))

    def raises(self, ex, st, a):
        text, n, doubled, pat, linear = match_terms(ex, st, a["self"])
        return [("InvalidSequence", self._no_match(ex, st, a, n), None)]

    def assumes(self, ex, st, a):
        return [entity_terms(ex, st, a["self"])["axiom"]]

    def ensures(self, ex, pre, st, a, result):
        from pyvc.models import re_at, re_window
        text, n, doubled, pat, linear = match_terms(ex, pre, a["self"])
        if not (isinstance(result, VObj) and result.kind == "SeqMatch"):
            return [("returns-a-match", None)]
        m = st.get(result, "match")
        start, ln = st.get(m, "pos").t, st.get(m, "len").t
        d = regex_c._data_term(ex, pre, None, doubled, text)
        w = re_window(d, start, tm.add(start, n))
        return [
            ("start-in-range", tm.and_(tm.le(0, start), tm.lt(start, n))),
            ("leftmost", self._no_match(ex, pre, a, start)),
            ("start-is-the-leftmost-start", tm.eq(start, entity_terms(ex, pre, a["self"])["lm"])),
            ("pattern-of-own-class", tm.and_(tm.eq(st.get(m, "pat").t, pat), tm.eq(st.get(m, "w").t, w),
                                             re_at(pat, d, start, n))),
            ("at-most-one-turn", tm.and_(tm.le(0, ln), tm.le(ln, n))),
            ("length-is-the-match-length", tm.eq(ln, tm.app("re_len", INT, pat, w))),
            ("linear-never-wraps", tm.implies(tm.not_(doubled), tm.le(tm.add(start, ln), n))),
            ("rec-is-own-record", tm.B(st.get(result, "rec") is pre.get(a["self"], "record"))),
        ] + [("inv_cache-preserved:" + l, t) for (l, t) in ex.models.inv_cache(st)]

    def result(self, ex, st, a):
        st = st.fork()
        ex.models.init_cache(st, prefix="cache!%d" % next(tm._fresh))
        sm = VObj("SeqMatch")
        m = VObj("ReMatch")
        k = next(tm._fresh)
        st.set_inplace(m, "pat", VT(tm.V("bm%d.pat" % k, STR)))
        st.set_inplace(m, "w", VT(tm.V("bm%d.w" % k, STR)))
        st.set_inplace(m, "pos", VT(tm.V("bm%d.start" % k, INT)))
        st.set_inplace(m, "len", VT(tm.V("bm%d.len" % k, INT)))
        st.set_inplace(sm, "match", m)
        st.set_inplace(sm, "rec", st.get(a["self"], "record"))
        st.set_inplace(sm, "shift", VT(tm.I(0)))
        return [(st, sm)]

    def model_terms(self, ex, st, a):
        text, n, doubled, pat, linear = match_terms(ex, st, a["self"])
        return dict(text=text, cls=st.get(a["self"], "__class__").sym)


class IsValid(Contract):
    """is_valid() returns True or False and never raises: True iff the match exists"""
    file, qual = FILE, "StructuredRecord.is_valid"
    props = ("C17", "C06")
    variants = ("CircularRecord",)

    def setup(self, ex, st, variant):
        ex.models.init_cache(st)
        rec = ex.models.sym_record(st, "CircularRecord", "record", ann_keys=("topology",))
        return dict(self=ex.models.sym_entity(st, "StructuredRecord", "self", record=rec))

    def requires(self, ex, st, a):
        if st.get(a["self"], "candidate") is not None:
            return []
        return entity_requires(ex, st, a["self"])

    def raises(self, ex, st, a):
        return []

    def cover_hint(self, ex, st, a):
        return cache_cover_hint(ex, st, st.get(a["self"], "record"))

    def ensures(self, ex, pre, st, a, result):
        cand = pre.get(a["self"], "candidate")
        if cand is not None:
            # abstract view (characterize): the verdict of a candidate class on a record is accepts(class, record)
            rec = pre.get(pre.get(a["self"], "record"), "ident")
            return [("verdict-is-accepts", tm.eq(result.t, tm.app("accepts", BOOL, cand.t, rec.t)))]
        text, n, doubled, pat, linear = match_terms(ex, pre, a["self"])
        bm = BaseMatch()
        return [("true-iff-some-start-matches", tm.eq(result.t, tm.not_(bm._no_match(ex, pre, a, n))))] + [
            ("inv_cache-preserved:" + l, t) for (l, t) in ex.models.inv_cache(st)]

    def result(self, ex, st, a):
        st = st.fork()
        if st.get(a["self"], "candidate") is None:
            ex.models.init_cache(st, prefix="cache!%d" % next(tm._fresh))
        return [(st, VT(tm.fresh("valid", BOOL)))]


class StructInit(Contract):
    file, qual = FILE, "StructuredRecord.__init__"
    props = ("C06",)

    def setup(self, ex, st, variant):
        ex.models.init_cache(st)
        e = VObj("StructuredRecord")
        rec = ex.models.sym_record(st, "CircularRecord", "record")
        return dict(self=e, record=rec)

    def ensures(self, ex, pre, st, a, result):
        return [("stores-record", tm.B(st.get(a["self"], "record") is a["record"])),
                ("stores-seq", tm.B(st.get(a["self"], "seq") is pre.get(a["record"], "seq")))]

    def result(self, ex, st, a):
        st = st.fork()
        st.set_inplace(a["self"], "record", a["record"])
        st.set_inplace(a["self"], "seq", st.get(a["record"], "seq"))
        return [(st, NONE)]


CONTRACTS = [GetRegex(), BaseMatch(), IsValid(), StructInit()]
