#!/venv/bin/python
"""regenerates const_tests_baseline.json: for every property, the `if` tests of the executed code that evaluate to one
constant on every path explored on the UNCHANGED tree (set-ups that fix a value, version checks ...).  A run on another
tree reports a DEGRADED line for every such test that is not in this list."""
import importlib, json, os, sys
V = os.path.dirname(os.path.abspath(__file__))
sys.path.insert(0, V)
from pyvc.run import Ctx  # noqa: E402
out = {}
for i in range(1, 21):
    p = "C%02d" % i
    pm = importlib.import_module("props." + p)
    ctx = Ctx(p, "quick", 0, "/repo")
    pm.obligations(ctx)
    out[p] = sorted("%s: %s is always %s" % (f_, t_, "true" if o_ == {"T"} else "false")
                    for (f_, t_), o_ in ctx.test_outcomes.items() if o_ in ({"T"}, {"F"}))
    print(p, len(out[p]))
json.dump(out, open(os.path.join(V, "const_tests_baseline.json"), "w"), indent=1)
