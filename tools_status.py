#!/venv/bin/python
"""regenerates the state table of DESIGN.md section 0.2 from the evidence files (between the STATE-TABLE markers)"""
import json, os, re
V = os.path.dirname(os.path.abspath(__file__))
rows = ["| id | level | discharged / obligations | functions under contract | bounded evaluations | obligation kinds | solver s | wall s |",
        "|---|---|---|---|---|---|---|---|"]
funcs = set()
for i in range(1, 21):
    e = json.load(open(os.path.join(V, "evidence", "C%02d.json" % i)))
    c = e["coverage"]
    funcs |= set(c["functions_under_contract"])
    kinds = ", ".join("%s:%d" % (k, v) for k, v in sorted(c["kinds"].items()) if v)
    rows.append("| C%02d | %s | %d / %d | %d | %d | %s | %s | %s |" % (i, e["level"], c["discharged"], c["obligations"],
                len(c["functions_under_contract"]), c.get("evaluations", 0), kinds, c["solver_time_s"], e["wall_s"]))
rows.append("")
rows.append("Distinct functions under contract over all properties: %d." % len(funcs))
by_file = {}
for f in sorted(funcs):
    rel, q = f.split("::", 1)
    by_file.setdefault(rel.replace("moclo/moclo/", ""), []).append(q)
rows.append("")
rows.append("Functions under contract (reached by at least one check in the run the table was generated from): " +
            "; ".join("`%s` %s" % (k, ", ".join(v)) for k, v in sorted(by_file.items())) + ".")
p = os.path.join(V, "DESIGN.md")
s = open(p).read()
new = "<!-- STATE-TABLE -->\n" + "\n".join(rows) + "\n<!-- /STATE-TABLE -->"
if "<!-- STATE-TABLE -->" in s:
    s = re.sub(r"<!-- STATE-TABLE -->.*?<!-- /STATE-TABLE -->", lambda m: new, s, flags=re.S)
else:
    a = s.index("| id | level | discharged / obligations")
    b = s.index("\n\n", a)
    s = s[:a] + new + s[b:]
open(p, "w").write(s)
print("\n".join(rows[-4:]))
print(sorted(funcs))
